package part

import (
	"bytes"

	"github.com/cilium/statedb/internal/vnd"
)

func init() {
	verifEntries["VerifC12Watch"] = VerifC12Watch
}

// VerifC12Watch: watch channels of a part.Tree.
//
// Pre-state: N1 symbolic inserts, committed and notified. Then channels are
// retained from Get(k), Prefix(p), RootWatch and (optionally) InsertWatch /
// ModifyWatch of the pre-state transaction. A later transaction performs N2
// symbolic operations and is either committed+notified, committed without
// Notify, or abandoned.
func VerifC12Watch() {
	N1 := vnd.Param("N1", 2)
	N2 := vnd.Param("N2", 2)
	L := vnd.Param("L", 2)
	var opts []Option
	if vnd.Param("ROOTONLY", 0) == 1 {
		opts = append(opts, RootOnlyWatch)
	}
	tree := New[uint64](opts...)
	model := &vnd.Map{}
	txn := tree.Txn()
	// ALPHA=1: symbolic key bytes range over the small alphabet of the preset keys
	symKey := func(tag string, l int) []byte {
		k := vnd.Bytes(tag, l)
		if vnd.Param("ALPHA", 0) == 1 {
			for _, b := range k {
				vnd.Assume(vnd.Or(vnd.And(b >= 'a', b <= 'e'), b == 'x'))
			}
		}
		return k
	}
	type wkey struct {
		ch  <-chan struct{}
		key []byte
	}
	var insW []wkey
	// PRESET: concrete pre-state shapes that need 3+ keys (inner node with a
	// leaf and one/two children below a node4 root), then N1 symbolic inserts
	for _, k := range [][]string{nil, {"a", "ab", "x"}, {"ab", "abc", "abd", "x"}, {"a", "ab", "abc", "x"}, nil, {"ab", "ac", "x"}, {"a1", "a2", "a3", "a4", "a5", "x"}, {"a", "abc", "abd", "x"}, {"ab", "ac", "ad", "x"}}[vnd.Param("PRESET", 0)] {
		txn.Insert([]byte(k), 5)
		model.Put([]byte(k), 5)
	}
	if vnd.Param("PRESET", 0) == 4 {
		// {"ab","abc","b"} then "abc" deleted in its own transaction: "ab" is now an
		// inner node holding a value with no children left
		for _, k := range []string{"ab", "abc", "b"} {
			txn.Insert([]byte(k), 5)
			model.Put([]byte(k), 5)
		}
		tree = txn.CommitAndNotify()
		txn = tree.Txn()
		txn.Delete([]byte("abc"))
		model.Del([]byte("abc"))
	}
	for i := 0; i < N1; i++ {
		k := symKey("pre", L)
		if vnd.Param("MODIFYWATCH", 0) == 1 && i%2 == 1 {
			_, _, _, w := txn.ModifyWatch(k, uint64(10+i), func(o, n uint64) uint64 { return n })
			insW = append(insW, wkey{w, k})
		} else {
			_, _, w := txn.InsertWatch(k, uint64(10+i))
			insW = append(insW, wkey{w, k})
		}
		model.Put(k, uint64(10+i))
	}
	// InsertWatch/ModifyWatch channels: only the last write of a key in the
	// pre-state transaction is followed (the text cannot demand more of
	// same-transaction re-writes). Nothing is asserted about their state right
	// after the inserting transaction's own Notify: in root-only mode the
	// channel is the old root watch, which that Notify closes (an early
	// wake-up, which the statement does not forbid).
	for _, w := range insW {
		vnd.Assert(vnd.Not(vnd.IsClosed(w.ch)), "C12.insertwatch.open-before-notify")
	}
	tree = txn.Commit()
	txn.Notify()
	// retained channels from the committed tree
	gk := symKey("gk", vnd.Param("WL", L))
	_, getW, _ := tree.Get(gk)
	pp := symKey("pp", vnd.Param("WL", L))
	_, prefW := tree.Prefix(pp)
	rootW := tree.RootWatch()
	vnd.Assert(vnd.Not(vnd.IsClosed(getW)), "C12.get.open-when-handed-out")
	vnd.Assert(vnd.Not(vnd.IsClosed(prefW)), "C12.prefix.open-when-handed-out")
	vnd.Assert(vnd.Not(vnd.IsClosed(rootW)), "C12.root.open-when-handed-out")

	// later transaction
	txn = tree.Txn()
	anyChange := false
	getChanged := false
	prefChanged := false
	insChanged := make([]bool, len(insW))
	// TXNGET=1: a channel taken with txn.Get(tk) inside the transaction, after its first
	// operation (Get is documented to return a channel "closed on modification to the key")
	var tgW <-chan struct{}
	var tk []byte
	tgChanged := false
	for i := 0; i < N2; i++ {
		if i == 1 && vnd.Param("TXNGET", 0) >= 1 {
			tk = symKey("tk", L)
			if vnd.Param("TXNGET", 0) == 2 {
				// TXNGET=2: the channel of txn.Prefix(tk) ("closes when any objects matching the prefix are upserted or deleted")
				_, tgW = txn.Prefix(tk)
			} else {
				_, tgW, _ = txn.Get(tk)
			}
			vnd.Assert(vnd.Not(vnd.IsClosed(tgW)), "C12.txnget.open-when-handed-out")
			vnd.Cover("C12.txnget")
		}
		// KL1: length bound of the first operation's key (merges on delete need a short key first)
		kl := L
		if i == 0 {
			kl = vnd.Param("KL1", L)
		}
		k := symKey("k", kl)
		changed := false
		opLo := 0
		if i == 0 && vnd.Param("FIRSTDEL", 0) == 1 {
			opLo = 2
		}
		opHi := 2
		if i == 0 && vnd.Param("FIRSTINS", 0) == 1 {
			opHi = 0
		}
		switch vnd.IntRange("op", opLo, opHi) {
		case 0:
			txn.Insert(k, uint64(20+i))
			model.Put(k, uint64(20+i))
			changed = true
		case 1:
			txn.Modify(k, uint64(30+i), func(o, n uint64) uint64 { return o + n })
			mo, mh := model.Get(k)
			model.Put(k, vnd.IteU64(mh, mo+uint64(30+i), uint64(30+i)))
			changed = true
		case 2:
			_, had := txn.Delete(k)
			_, mh := model.Del(k)
			vnd.Assert(vnd.Iff(had, mh), "C12.delete.had")
			changed = mh
			if !had {
				vnd.Cover("C12.delete-absent")
			}
		}
		anyChange = vnd.Or(anyChange, changed)
		if tgW != nil {
			if vnd.Param("TXNGET", 0) == 2 {
				tgChanged = vnd.Or(tgChanged, vnd.And(changed, bytes.HasPrefix(k, tk)))
			} else {
				tgChanged = vnd.Or(tgChanged, vnd.And(changed, bytes.Equal(k, tk)))
			}
		}
		getChanged = vnd.Or(getChanged, vnd.And(changed, bytes.Equal(k, gk)))
		prefChanged = vnd.Or(prefChanged, vnd.And(changed, bytes.HasPrefix(k, pp)))
		for j := range insW {
			insChanged[j] = vnd.Or(insChanged[j], vnd.And(changed, bytes.Equal(k, insW[j].key)))
		}
	}
	// nothing is closed before Notify
	if tgW != nil {
		vnd.Assert(vnd.Not(vnd.IsClosed(tgW)), "C12.txnget.open-before-notify")
	}
	vnd.Assert(vnd.Not(vnd.IsClosed(getW)), "C12.get.open-before-notify")
	vnd.Assert(vnd.Not(vnd.IsClosed(prefW)), "C12.prefix.open-before-notify")
	vnd.Assert(vnd.Not(vnd.IsClosed(rootW)), "C12.root.open-before-notify")

	switch vnd.IntRange("end", 0, 2) {
	case 0: // commit + notify (either order: Commit();Notify() or CommitAndNotify())
		var newTree Tree[uint64]
		if vnd.Bool("notify-first") {
			newTree = txn.CommitAndNotify()
		} else {
			newTree = txn.Commit()
			vnd.Assert(vnd.Not(vnd.IsClosed(rootW)), "C12.root.open-after-commit-before-notify")
			vnd.Assert(vnd.Not(vnd.IsClosed(getW)), "C12.get.open-after-commit-before-notify")
			txn.Notify()
		}
		vnd.Assert(vnd.Iff(vnd.IsClosed(rootW), anyChange), "C12.root.closed-iff-changed")
		vnd.Assert(vnd.Implies(getChanged, vnd.IsClosed(getW)), "C12.get.closed-on-change")
		vnd.Assert(vnd.Implies(prefChanged, vnd.IsClosed(prefW)), "C12.prefix.closed-on-change")
		if tgW != nil {
			vnd.Assert(vnd.Implies(tgChanged, vnd.IsClosed(tgW)), "C12.txnget.closed-on-change")
		}
		for j, w := range insW {
			last := true
			for j2 := j + 1; j2 < len(insW); j2++ {
				last = vnd.And(last, vnd.Not(bytes.Equal(insW[j2].key, w.key)))
			}
			vnd.Assert(vnd.Implies(vnd.And(last, insChanged[j]), vnd.IsClosed(w.ch)), "C12.insertwatch.closed-on-next-change")
		}
		vnd.Assert(vnd.Not(vnd.IsClosed(newTree.RootWatch())), "C12.newroot.open")
		// fresh channels from the new tree are open
		_, w2, _ := newTree.Get(gk)
		vnd.Assert(vnd.Not(vnd.IsClosed(w2)), "C12.get.newtree.open")
		_, w3 := newTree.Prefix(pp)
		vnd.Assert(vnd.Not(vnd.IsClosed(w3)), "C12.prefix.newtree.open")
		// follow-up: channels handed out by the new tree close on the next change
		rootW2 := newTree.RootWatch()
		_, absW2, _ := newTree.Get([]byte{0xfe, 0xfe, 0xfe})
		t3 := newTree.Txn()
		t3.Insert([]byte{0xfe, 0xfe, 0xfe}, 1)
		tree3 := t3.CommitAndNotify()
		vnd.Assert(vnd.IsClosed(rootW2), "C12.followup.root-watch-not-closed")
		vnd.Assert(vnd.IsClosed(absW2), "C12.followup.get-watch-not-closed")
		if tgW != nil {
			// ... and so does the channel handed out inside the transaction, at the latest now
			t4 := tree3.Txn()
			t4.Insert(tk, 9)
			t4.CommitAndNotify()
			vnd.Assert(vnd.IsClosed(tgW), "C12.txnget.followup-not-closed")
		}
		vnd.Cover("C12.committed")
	case 1: // commit without notify: nothing may be closed
		txn.Commit()
		vnd.Assert(vnd.Not(vnd.IsClosed(rootW)), "C12.root.open-without-notify")
		vnd.Assert(vnd.Not(vnd.IsClosed(getW)), "C12.get.open-without-notify")
		vnd.Assert(vnd.Not(vnd.IsClosed(prefW)), "C12.prefix.open-without-notify")
		vnd.Cover("C12.commit-no-notify")
	case 2: // abandoned: nothing may be closed, a new transaction from the old tree works
		vnd.Assert(vnd.Not(vnd.IsClosed(rootW)), "C12.root.open-after-abandon")
		vnd.Assert(vnd.Not(vnd.IsClosed(getW)), "C12.get.open-after-abandon")
		vnd.Assert(vnd.Not(vnd.IsClosed(prefW)), "C12.prefix.open-after-abandon")
		for _, w := range insW {
			_ = w
		}
		t2 := tree.Txn()
		t2.CommitAndNotify()
		vnd.Assert(vnd.Not(vnd.IsClosed(rootW)), "C12.root.open-after-empty-commit")
		vnd.Cover("C12.abandoned")
	}
	vnd.Cover("C12.end")
}
