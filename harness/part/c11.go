package part

import (
	"github.com/cilium/statedb/internal/vnd"
)

func init() {
	verifEntries["VerifC11Driver"] = VerifC11Driver
	verifEntries["VerifC11Fanout"] = VerifC11Fanout
}

type keptTree struct {
	tree Tree[uint64]
	snap *vnd.Map
}

type keptIter struct {
	it   Iterator[uint64]
	snap *vnd.Map
	sel  func([]byte) bool
	name string
}

func collect(it Iterator[uint64]) (keys [][]byte, vals []uint64) {
	for k, v := range it.All {
		keys = append(keys, k)
		vals = append(vals, v)
	}
	return
}

// checkOps compares every read operation of ops (a Tree or a Txn) with the model.
func checkOps(ops Ops[uint64], m *vnd.Map, q []byte, id string) {
	vnd.Assert(ops.Len() == m.Len(), id+".len")
	v, _, ok := ops.Get(q)
	mv, mok := m.Get(q)
	vnd.Assert(vnd.Iff(ok, mok), id+".get.ok")
	vnd.Assert(vnd.Implies(mok, v == mv), id+".get.val")
	keys, vals := collect(ops.Iterator())
	m.CheckOrdered(keys, vals, vnd.SelAll, id+".all")
	pit, _ := ops.Prefix(q)
	keys, vals = collect(pit)
	m.CheckOrdered(keys, vals, vnd.SelPrefix(q), id+".prefix")
	keys, vals = collect(ops.LowerBound(q))
	m.CheckOrdered(keys, vals, vnd.SelLowerBound(q), id+".lowerbound")
}

const (
	opInsert = iota
	opDelete
	opModify
	opClone
	opIter
	opPrefix
	opLowerBound
	opCommit
	opBranch
	opGet
	numOps
)

// VerifC11Driver: N symbolic operations on a part.Tree transaction against the
// model; every kept Tree, clone and iterator must keep returning the contents
// it had when it was created (persistence), whatever is done later.
func VerifC11Driver() {
	N := vnd.Param("N", 3)
	L := vnd.Param("L", 2)
	opsMask := vnd.Param("OPS", (1<<numOps)-1)
	var opts []Option
	if vnd.Param("ROOTONLY", 0) == 1 {
		opts = append(opts, RootOnlyWatch)
	}
	tree := New[uint64](opts...)
	model := &vnd.Map{}
	txn := tree.Txn()
	var kept []keptTree
	var iters []keptIter
	kept = append(kept, keptTree{tree, model.Snapshot()})
	// optional concrete committed pre-state: keys that are prefixes of each other
	if pre := vnd.Param("PRE", 0); pre > 0 {
		for i, k := range []string{"", "a", "ab", "b"}[:pre] {
			txn.Insert([]byte(k), uint64(100+i))
			model.Put([]byte(k), uint64(100+i))
		}
		tree = txn.CommitAndNotify()
		kept = append(kept, keptTree{tree, model.Snapshot()})
		txn = tree.Txn()
	}

	var menu []int
	for o := 0; o < numOps; o++ {
		if opsMask&(1<<o) != 0 {
			menu = append(menu, o)
		}
	}
	for i := 0; i < N; i++ {
		op := menu[vnd.IntRange("op", 0, len(menu)-1)]
		val := uint64(i + 1)
		switch op {
		case opInsert:
			k := vnd.Bytes("k", L)
			old, had := txn.Insert(k, val)
			mo, mh := model.Put(k, val)
			vnd.Assert(vnd.Iff(had, mh), "C11.insert.had")
			vnd.Assert(vnd.Implies(mh, old == mo), "C11.insert.old")
			if had {
				vnd.Cover("C11.replaced-existing")
			}
		case opModify:
			k := vnd.Bytes("k", L)
			old, nv, had := txn.Modify(k, val, func(o, n uint64) uint64 { return o*16 + n })
			mo, mh := model.Get(k)
			want := vnd.IteU64(mh, mo*16+val, val)
			model.Put(k, want)
			vnd.Assert(vnd.Iff(had, mh), "C11.modify.had")
			vnd.Assert(vnd.Implies(mh, old == mo), "C11.modify.old")
			vnd.Assert(nv == want, "C11.modify.new")
		case opDelete:
			k := vnd.Bytes("k", L)
			old, had := txn.Delete(k)
			mo, mh := model.Del(k)
			vnd.Assert(vnd.Iff(had, mh), "C11.delete.had")
			vnd.Assert(vnd.Implies(mh, old == mo), "C11.delete.old")
			if had {
				vnd.Cover("C11.deleted-existing")
			} else {
				vnd.Cover("C11.deleted-absent")
			}
		case opGet:
			k := vnd.Bytes("k", L)
			v, _, ok := txn.Get(k)
			mv, mok := model.Get(k)
			vnd.Assert(vnd.Iff(ok, mok), "C11.txnget.ok")
			vnd.Assert(vnd.Implies(mok, v == mv), "C11.txnget.val")
		case opClone:
			kept = append(kept, keptTree{txn.Clone(), model.Snapshot()})
		case opIter:
			iters = append(iters, keptIter{txn.Iterator(), model.Snapshot(), vnd.SelAll, "iter"})
		case opPrefix:
			p := vnd.Bytes("p", L)
			it, _ := txn.Prefix(p)
			iters = append(iters, keptIter{it, model.Snapshot(), vnd.SelPrefix(p), "prefix"})
		case opLowerBound:
			p := vnd.Bytes("p", L)
			iters = append(iters, keptIter{txn.LowerBound(p), model.Snapshot(), vnd.SelLowerBound(p), "lowerbound"})
		case opCommit:
			tree = txn.CommitAndNotify()
			kept = append(kept, keptTree{tree, model.Snapshot()})
			txn = tree.Txn()
		case opBranch:
			// abandon the current transaction and continue from an older version
			j := vnd.IntRange("from", 0, len(kept)-1)
			tree = kept[j].tree
			model = kept[j].snap.Snapshot()
			txn = tree.Txn()
			vnd.Cover("C11.branched")
		}
	}
	q := vnd.Bytes("q", L)
	checkOps(txn, model, q, "C11.txn")
	for _, kt := range kept {
		t := kt.tree
		checkOps(&t, kt.snap, q, "C11.kept")
	}
	for _, ki := range iters {
		keys, vals := collect(ki.it)
		ki.snap.CheckOrdered(keys, vals, ki.sel, "C11.keptiter."+ki.name)
	}
	if len(kept) > 1 {
		vnd.Cover("C11.kept-version-compared")
	}
	if len(iters) > 0 {
		vnd.Cover("C11.kept-iterator-compared")
	}
	vnd.Cover("C11.end")
}

// VerifC11Fanout: concrete pre-state with FAN children under one prefix byte
// (forces node4/16/48/256), then symbolic insert/delete pairs and queries, with
// the old committed tree kept and re-checked.
func VerifC11Fanout() {
	FAN := vnd.Param("FAN", 5)
	N := vnd.Param("N", 2)
	DEEP := vnd.Param("DEEP", 0)
	tree := New[uint64]()
	model := &vnd.Map{}
	txn := tree.Txn()
	step := 256 / (FAN + 1)
	if step < 1 {
		step = 1
	}
	for i := 0; i < FAN; i++ {
		var k []byte
		b := byte((i + 1) * step)
		if FAN >= 200 {
			b = byte(i)
		}
		if DEEP == 1 {
			k = []byte{7, b, 9}
		} else {
			k = []byte{7, b}
		}
		txn.Insert(k, uint64(100+i))
		model.Put(k, uint64(100+i))
	}
	if vnd.Param("INNERLEAF", 0) == 1 {
		txn.Insert([]byte{7}, 99)
		model.Put([]byte{7}, 99)
	}
	tree = txn.CommitAndNotify()
	base := keptTree{tree, model.Snapshot()}
	txn = tree.Txn()
	var kept []keptTree
	// symbolic bytes range over a small alphabet around the children's keys:
	// below the first child, the first child, the gap after it, a middle
	// child, the last child, above the last child (and 0 / 255).
	first, mid, last := byte(step), byte(((FAN+1)/2)*step), byte(FAN*step)
	if FAN >= 200 {
		first, mid, last = 0, byte(FAN/2), byte(FAN-1)
	}
	alpha := func(b byte) bool {
		ok := vnd.Or(b == 0, b == 255)
		for _, c := range []byte{first, first + 1, mid, last, last + 1, 9} {
			ok = vnd.Or(ok, b == c)
		}
		return ok
	}
	symKey := func(tag string, maxTail int) []byte {
		tailLen := vnd.IntRange(tag+".tail", 0, maxTail)
		t := vnd.BytesN(tag, tailLen)
		for _, b := range t {
			vnd.Assume(alpha(b))
		}
		return append([]byte{7}, t...)
	}
	for i := 0; i < N; i++ {
		// keys share the prefix byte so that they land in the big node
		k := symKey("k", vnd.Param("KTAIL", 2))
		val := uint64(i + 1)
		if vnd.IntRange("op", 0, 1) == 0 {
			old, had := txn.Insert(k, val)
			mo, mh := model.Put(k, val)
			vnd.Assert(vnd.Iff(had, mh), "C11.fan.insert.had")
			vnd.Assert(vnd.Implies(mh, old == mo), "C11.fan.insert.old")
		} else {
			old, had := txn.Delete(k)
			mo, mh := model.Del(k)
			vnd.Assert(vnd.Iff(had, mh), "C11.fan.delete.had")
			vnd.Assert(vnd.Implies(mh, old == mo), "C11.fan.delete.old")
			if had {
				vnd.Cover("C11.fan.deleted-existing")
			}
		}
		if vnd.Param("CLONE", 1) == 1 {
			kept = append(kept, keptTree{txn.Clone(), model.Snapshot()})
		}
	}
	q := symKey("q", vnd.Param("QTAIL", 1))
	checkOps(txn, model, q, "C11.fan.txn")
	bt := base.tree
	checkOps(&bt, base.snap, q, "C11.fan.base")
	for _, kt := range kept {
		t := kt.tree
		checkOps(&t, kt.snap, q, "C11.fan.kept")
	}
	vnd.Cover("C11.fan.end")
}

func init() { verifEntries["VerifC11Deep"] = VerifC11Deep }

// VerifC11Deep: DEPTH nested keys a, aa, aaa, ... (each a prefix of the next, so
// the path to the deepest key has DEPTH nodes), then symbolic deletes/inserts of
// keys at chosen depths; old tree kept and re-checked.
func VerifC11Deep() {
	DEPTH := vnd.Param("DEPTH", 40)
	N := vnd.Param("N", 1)
	tree := New[uint64]()
	model := &vnd.Map{}
	txn := tree.Txn()
	key := func(n int) []byte {
		k := make([]byte, n)
		for i := range k {
			k[i] = 'a'
		}
		return k
	}
	for i := 1; i <= DEPTH; i++ {
		txn.Insert(key(i), uint64(i))
		model.Put(key(i), uint64(i))
	}
	tree = txn.CommitAndNotify()
	base := keptTree{tree, model.Snapshot()}
	depths := []int{1, 2, DEPTH / 2, 31, 32, 33, 34, DEPTH - 1, DEPTH}
	useTxn := vnd.Bool("txn")
	if useTxn {
		txn = tree.Txn()
	}
	for i := 0; i < N; i++ {
		dpt := depths[vnd.IntRange("depth", 0, len(depths)-1)]
		if dpt < 1 || dpt > DEPTH {
			vnd.Assume(false)
		}
		k := key(dpt)
		if vnd.Bool("delete") {
			var old uint64
			var had bool
			if useTxn {
				old, had = txn.Delete(k)
			} else {
				old, had, tree = tree.Delete(k)
			}
			mo, mh := model.Del(k)
			vnd.Assert(had == mh && (!mh || old == mo), "C11.deep.delete.result")
		} else {
			if useTxn {
				txn.Insert(k, uint64(1000+i))
			} else {
				_, _, tree = tree.Insert(k, uint64(1000+i))
			}
			model.Put(k, uint64(1000+i))
		}
	}
	if useTxn {
		tree = txn.CommitAndNotify()
	}
	q := key(depths[vnd.IntRange("q", 0, len(depths)-1)])
	checkOps(&tree, model, q, "C11.deep.final")
	bt := base.tree
	checkOps(&bt, base.snap, q, "C11.deep.base")
	vnd.Cover("C11.deep.end")
}
