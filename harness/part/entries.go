package part

var verifEntries = map[string]func(){}
