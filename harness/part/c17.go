package part

import (
	"github.com/cilium/statedb/internal/vnd"
)

func init() {
	verifEntries["VerifC17Map"] = VerifC17Map
	verifEntries["VerifC17Set"] = VerifC17Set
	verifEntries["VerifKFFromMapSingleton"] = VerifKFFromMapSingleton
	verifEntries["VerifKFMapTxnReuse"] = VerifKFMapTxnReuse
}

type mapVer struct {
	m     Map[string, uint64]
	model *vnd.Map
}

func collectMap(seq func(yield func(string, uint64) bool)) (keys [][]byte, vals []uint64) {
	seq(func(k string, v uint64) bool {
		keys = append(keys, []byte(k))
		vals = append(vals, v)
		return true
	})
	return
}

func checkMap(m Map[string, uint64], model *vnd.Map, q string, id string) {
	vnd.Assert(m.Len() == model.Len(), id+".len")
	v, ok := m.Get(q)
	mv, mok := model.Get([]byte(q))
	vnd.Assert(vnd.Iff(ok, mok), id+".get.ok")
	vnd.Assert(vnd.Implies(mok, v == mv), id+".get.val")
	keys, vals := collectMap(m.All())
	model.CheckOrdered(keys, vals, vnd.SelAll, id+".all")
	keys, vals = collectMap(m.Prefix(q))
	model.CheckOrdered(keys, vals, vnd.SelPrefix([]byte(q)), id+".prefix")
	keys, vals = collectMap(m.LowerBound(q))
	model.CheckOrdered(keys, vals, vnd.SelLowerBound([]byte(q)), id+".lowerbound")
}

const (
	mopSet = iota
	mopDelete
	mopFromMap
	mopTxn
	mopTxnReuse
	numMops
)

// VerifC17Map: branching histories of part.Map operations; every version must
// behave as the mathematical map it stands for, and stay unchanged afterwards.
func VerifC17Map() {
	N := vnd.Param("N", 3)
	L := vnd.Param("L", 1)
	opsMask := vnd.Param("OPS", (1<<numMops)-1)
	var menu []int
	for o := 0; o < numMops; o++ {
		if opsMask&(1<<o) != 0 {
			menu = append(menu, o)
		}
	}
	vers := []mapVer{{Map[string, uint64]{}, &vnd.Map{}}}
	if big := vnd.Param("BIGPRE", 0); big > 0 {
		// key "p" plus BIGPRE keys "p"+byte: the node of "p" is a node16/48 carrying a value
		m0 := Map[string, uint64]{}.Set("p", 1)
		md := &vnd.Map{}
		md.Put([]byte("p"), 1)
		for i := 0; i < big; i++ {
			k := string([]byte{'p', byte(0x20 + 4*i)})
			m0 = m0.Set(k, uint64(2+i))
			md.Put([]byte(k), uint64(2+i))
		}
		vers = append(vers, mapVer{m0, md})
	}
	for i := 0; i < N; i++ {
		src := vnd.IntRange("src", 0, len(vers)-1)
		base := vers[src]
		op := menu[vnd.IntRange("op", 0, len(menu)-1)]
		val := uint64(10 * (i + 1))
		switch op {
		case mopSet:
			k := vnd.String("k", L)
			nm := base.model.Snapshot()
			nm.Put([]byte(k), val)
			vers = append(vers, mapVer{base.m.Set(k, val), nm})
		case mopDelete:
			k := vnd.String("k", L)
			nm := base.model.Snapshot()
			nm.Del([]byte(k))
			vers = append(vers, mapVer{base.m.Delete(k), nm})
		case mopFromMap:
			n := vnd.IntRange("hm.n", 1, 2)
			hm := map[string]uint64{}
			nm := base.model.Snapshot()
			k1 := vnd.String("k1", L)
			hm[k1] = val + 1
			nm.Put([]byte(k1), val+1)
			if n == 2 {
				k2 := vnd.String("k2", L)
				vnd.Assume(k1 != k2) // a Go map holds distinct keys
				hm[k2] = val + 2
				nm.Put([]byte(k2), val+2)
			}
			_, baseHasK1 := base.model.Get([]byte(k1))
			if vnd.Known("KF-frommap-singleton", vnd.And(base.m.singleton != nil, n == 2)) {
				_ = baseHasK1
				continue
			}
			vers = append(vers, mapVer{FromMap(base.m, hm), nm})
			vnd.Cover("C17.frommap")
		case mopTxn, mopTxnReuse:
			tx := base.m.Txn()
			nm := base.model.Snapshot()
			var keptSnap *vnd.Map
			var keptAll, keptPre, keptLB func(yield func(string, uint64) bool)
			for j := 0; j < 2; j++ {
				if j == 1 {
					// iterators taken inside the transaction list its contents at that moment
					// and are not affected by its later writes
					// (one iterator kind per path: each of them freezes the tree, which would
					// mask a missing freeze in another)
					keptSnap = nm.Snapshot()
					switch vnd.IntRange("keptkind", 0, 2) {
					case 0:
						keptAll = tx.All()
					case 1:
						keptPre = tx.Prefix("a")
					case 2:
						keptLB = tx.LowerBound("a")
					}
				}
				k := vnd.String("tk", L)
				if vnd.IntRange("top", 0, 1) == 0 {
					tx.Set(k, val+uint64(j))
					nm.Put([]byte(k), val+uint64(j))
				} else {
					had := tx.Delete(k)
					_, mh := nm.Del([]byte(k))
					vnd.Assert(vnd.Iff(had, mh), "C17.txn.delete.had")
				}
			}
			{
				if keptAll != nil {
					keys, vals := collectMap(keptAll)
					keptSnap.CheckOrdered(keys, vals, vnd.SelAll, "C17.txn.kept-all")
				}
				if keptPre != nil {
					keys, vals := collectMap(keptPre)
					keptSnap.CheckOrdered(keys, vals, vnd.SelPrefix([]byte("a")), "C17.txn.kept-prefix")
				}
				if keptLB != nil {
					keys, vals := collectMap(keptLB)
					keptSnap.CheckOrdered(keys, vals, vnd.SelLowerBound([]byte("a")), "C17.txn.kept-lowerbound")
				}
			}
			tv, tok := tx.Get("a")
			mv, mok := nm.Get([]byte("a"))
			vnd.Assert(vnd.Iff(tok, mok), "C17.txn.get.ok")
			vnd.Assert(vnd.Implies(mok, tv == mv), "C17.txn.get.val")
			vnd.Assert(tx.Len() == nm.Len(), "C17.txn.len")
			m1 := tx.Commit()
			vers = append(vers, mapVer{m1, nm})
			if op == mopTxnReuse {
				if vnd.Known("KF-maptxn-reuse", m1.hasTree) {
					continue
				}
				// a write to the committed map, then continued use of the MapTxn
				k := vnd.String("rk", L)
				nm2 := nm.Snapshot()
				nm2.Put([]byte(k), val+5)
				vers = append(vers, mapVer{m1.Set(k, val+5), nm2})
				k3 := vnd.String("rk3", L)
				nm3 := nm.Snapshot()
				tx.Set(k3, val+6)
				nm3.Put([]byte(k3), val+6)
				vers = append(vers, mapVer{tx.Commit(), nm3})
				vnd.Cover("C17.txn-reused")
			}
		}
	}
	q := vnd.String("q", L)
	for _, v := range vers {
		checkMap(v.m, v.model, q, "C17.map")
	}
	// equality predicates between the last version and every other
	last := vers[len(vers)-1]
	for _, v := range vers[:len(vers)-1] {
		vnd.Assert(vnd.Iff(last.m.EqualKeys(v.m), vnd.EqualKeys(last.model, v.model)), "C17.map.equalkeys")
		vnd.Assert(vnd.Iff(last.m.SlowEqual(v.m), vnd.EqualMaps(last.model, v.model)), "C17.map.slowequal")
	}
	if len(vers) > 2 {
		vnd.Cover("C17.versions-compared")
	}
	vnd.Cover("C17.map.end")
}

// VerifKFFromMapSingleton: probe for known finding KF-frommap-singleton.
func VerifKFFromMapSingleton() {
	m := Map[string, uint64]{}.Set("a", 1)
	m2 := FromMap(m, map[string]uint64{"a": 2, "b": 3})
	v, _ := m2.Get("a")
	vnd.Assert(v == 2, "KF-frommap-singleton")
}

// VerifKFMapTxnReuse: probe for known finding KF-maptxn-reuse.
func VerifKFMapTxnReuse() {
	tx := Map[string, uint64]{}.Txn()
	tx.Set("a", 1)
	tx.Set("b", 2)
	m1 := tx.Commit()
	m2 := m1.Set("c", 3)
	tx.Set("d", 4)
	m3 := tx.Commit()
	vnd.Assert(m2.Len() == 3, "KF-maptxn-reuse.m2")
	vnd.Assert(m3.Len() == 3, "KF-maptxn-reuse.m3")
	vnd.Assert(m1.Len() == 2, "KF-maptxn-reuse.m1")
}

type setVer struct {
	s     Set[string]
	model *vnd.Map
}

func checkSet(s Set[string], model *vnd.Map, q string, id string) {
	vnd.Assert(s.Len() == model.Len(), id+".len")
	_, mok := model.Get([]byte(q))
	vnd.Assert(vnd.Iff(s.Has(q), mok), id+".has")
	var keys [][]byte
	var vals []uint64
	s.All()(func(v string) bool {
		keys = append(keys, []byte(v))
		vals = append(vals, 0)
		return true
	})
	model.CheckOrdered(keys, vals, vnd.SelAll, id+".all")
}

// VerifC17Set: branching histories of part.Set operations.
func VerifC17Set() {
	N := vnd.Param("N", 3)
	L := vnd.Param("L", 1)
	vers := []setVer{{Set[string]{}, &vnd.Map{}}}
	for i := 0; i < N; i++ {
		src := vnd.IntRange("src", 0, len(vers)-1)
		base := vers[src]
		switch vnd.IntRange("op", 0, 4) {
		case 0:
			k := vnd.String("k", L)
			nm := base.model.Snapshot()
			nm.Put([]byte(k), 0)
			vers = append(vers, setVer{base.s.Set(k), nm})
		case 1:
			k := vnd.String("k", L)
			nm := base.model.Snapshot()
			nm.Del([]byte(k))
			vers = append(vers, setVer{base.s.Delete(k), nm})
		case 2: // union with another version
			o := vers[vnd.IntRange("other", 0, len(vers)-1)]
			nm := base.model.Snapshot()
			for _, e := range o.model.E {
				nm.PutIf(e.Present, e.Key, 0)
			}
			vers = append(vers, setVer{base.s.Union(o.s), nm})
			vnd.Cover("C17.set.union")
		case 3: // difference
			o := vers[vnd.IntRange("other", 0, len(vers)-1)]
			nm := base.model.Snapshot()
			for _, e := range o.model.E {
				nm.DelIf(e.Present, e.Key)
			}
			vers = append(vers, setVer{base.s.Difference(o.s), nm})
			vnd.Cover("C17.set.difference")
		case 4: // NewSet
			k1, k2 := vnd.String("k1", L), vnd.String("k2", L)
			nm := &vnd.Map{}
			nm.Put([]byte(k1), 0)
			nm.Put([]byte(k2), 0)
			vers = append(vers, setVer{NewSet(k1, k2), nm})
		}
	}
	q := vnd.String("q", L)
	for _, v := range vers {
		checkSet(v.s, v.model, q, "C17.set")
	}
	last := vers[len(vers)-1]
	for _, v := range vers[:len(vers)-1] {
		vnd.Assert(vnd.Iff(last.s.Equal(v.s), vnd.EqualKeys(last.model, v.model)), "C17.set.equal")
	}
	vnd.Cover("C17.set.end")
}

func init() { verifEntries["VerifC17Break"] = VerifC17Break }

// VerifC17Break: iteration over Map/Set sequences can be stopped early (a
// partially consumed iteration is part of "iteration ... consistent with it").
func VerifC17Break() {
	n := vnd.IntRange("n", 0, 3)
	s := Set[string]{}
	m := Map[string, uint64]{}
	for i := 0; i < n; i++ {
		k := string([]byte{byte('a' + i)})
		s = s.Set(k)
		m = m.Set(k, uint64(i))
	}
	cnt := 0
	for range s.All() {
		cnt++
		break
	}
	vnd.Assert(cnt == vnd.IteInt(n > 0, 1, 0), "C17.set.break")
	cnt = 0
	for range m.All() {
		cnt++
		break
	}
	vnd.Assert(cnt == vnd.IteInt(n > 0, 1, 0), "C17.map.break")
	cnt = 0
	for range m.Prefix("") {
		cnt++
		break
	}
	vnd.Assert(cnt == vnd.IteInt(n > 0, 1, 0), "C17.map.prefix.break")
	cnt = 0
	for range m.LowerBound("") {
		cnt++
		break
	}
	vnd.Assert(cnt == vnd.IteInt(n > 0, 1, 0), "C17.map.lowerbound.break")
	vnd.Cover("C17.break.end")
}
