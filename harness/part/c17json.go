package part

import (
	"go.yaml.in/yaml/v3"

	"github.com/cilium/statedb/internal/vnd"
)

func init() {
	verifEntries["VerifC17Codec"] = VerifC17Codec
}

// vjv: a value type whose encodings omit empty fields, so that a decoder which
// merges into a reused target is observable.
type vjv struct {
	A uint64            `json:"a,omitempty" yaml:"a,omitempty"`
	B string            `json:"b,omitempty" yaml:"b,omitempty"`
	M map[string]uint64 `json:"m,omitempty" yaml:"m,omitempty"`
}

func eqVjv(x, y vjv) bool {
	if x.A != y.A || x.B != y.B || len(x.M) != len(y.M) {
		return false
	}
	for k, v := range x.M {
		if w, ok := y.M[k]; !ok || w != v {
			return false
		}
	}
	return true
}

func sameMaps(a, b Map[string, vjv], id string) {
	vnd.Assert(a.Len() == b.Len(), id+".len")
	n := 0
	for k, v := range a.All() {
		w, ok := b.Get(k)
		vnd.Assert(ok, id+".key-present")
		vnd.Assert(eqVjv(v, w), id+".value")
		n++
	}
	vnd.Assert(n == a.Len(), id+".iterated")
	// ordered iteration of the decoded map yields the same keys in the same order
	var ka, kb []string
	for k := range a.All() {
		ka = append(ka, k)
	}
	for k := range b.All() {
		kb = append(kb, k)
	}
	vnd.Assert(len(ka) == len(kb), id+".all-len")
	for i := range ka {
		if i < len(kb) {
			vnd.Assert(ka[i] == kb[i], id+".all-order")
		}
	}
}

// VerifC17Codec: decode(encode(m)) == m for part.Map (JSON and YAML) and
// part.Set (JSON and YAML). The library calls made by the marshalling methods
// (encoding/json, yaml.v3) are executed by the host on concrete values (the
// solver enumerates the feasible values of symbolic parts at that boundary);
// the methods themselves are interpreted.
func VerifC17Codec() {
	N := vnd.Param("N", 2)
	var m Map[string, vjv]
	var s Set[string]
	n := vnd.IntRange("n", 0, N)
	for i := 0; i < n; i++ {
		kb := vnd.Byte("key")
		vnd.Assume(vnd.And(kb >= 'a', kb <= 'c'))
		key := string([]byte{kb})
		if vnd.Bool("longkey") {
			key = key + "a"
		}
		var v vjv
		v.A = vnd.Uint64("A")
		vnd.Assume(v.A <= 2)
		switch vnd.IntRange("shape", 0, 2) {
		case 1:
			v.B = "x"
		case 2:
			v.M = map[string]uint64{"p": uint64(i) + 1}
		}
		m = m.Set(key, v)
		s = s.Set(key)
	}
	if m.Len() == 0 {
		vnd.Cover("C17.codec.empty")
	}
	if m.Len() == 1 {
		vnd.Cover("C17.codec.singleton")
	}
	if m.Len() >= 2 {
		vnd.Cover("C17.codec.tree")
	}

	// JSON, Map
	data, err := m.MarshalJSON()
	vnd.Assert(err == nil, "C17.codec.json.marshal")
	var m2 Map[string, vjv]
	err = m2.UnmarshalJSON(data)
	vnd.Assert(err == nil, "C17.codec.json.unmarshal")
	sameMaps(m, m2, "C17.codec.json")
	// the decoded map is a working map
	m2b := m2.Set("zz", vjv{A: 9})
	vnd.Assert(m2b.Len() == m.Len()+1, "C17.codec.json.usable")
	vnd.Assert(m2.Len() == m.Len(), "C17.codec.json.persistent")

	// YAML, Map
	out, err := m.MarshalYAML()
	vnd.Assert(err == nil, "C17.codec.yaml.marshal")
	ydata, err := yaml.Marshal(out)
	vnd.Assert(err == nil, "C17.codec.yaml.lib-marshal")
	var doc yaml.Node
	err = yaml.Unmarshal(ydata, &doc)
	vnd.Assert(err == nil && doc.Kind == yaml.DocumentNode && len(doc.Content) == 1, "C17.codec.yaml.lib-unmarshal")
	var m3 Map[string, vjv]
	err = m3.UnmarshalYAML(doc.Content[0])
	vnd.Assert(err == nil, "C17.codec.yaml.unmarshal")
	sameMaps(m, m3, "C17.codec.yaml")

	// JSON, Set
	sdata, err := s.MarshalJSON()
	vnd.Assert(err == nil, "C17.codec.set.json.marshal")
	var s2 Set[string]
	err = s2.UnmarshalJSON(sdata)
	vnd.Assert(err == nil, "C17.codec.set.json.unmarshal")
	vnd.Assert(s2.Len() == s.Len(), "C17.codec.set.json.len")
	for k := range s.All() {
		vnd.Assert(s2.Has(k), "C17.codec.set.json.has")
	}
	// YAML, Set
	sout, err := s.MarshalYAML()
	vnd.Assert(err == nil, "C17.codec.set.yaml.marshal")
	sy, err := yaml.Marshal(sout)
	vnd.Assert(err == nil, "C17.codec.set.yaml.lib-marshal")
	var sdoc yaml.Node
	err = yaml.Unmarshal(sy, &sdoc)
	vnd.Assert(err == nil && len(sdoc.Content) == 1, "C17.codec.set.yaml.lib-unmarshal")
	var s3 Set[string]
	err = s3.UnmarshalYAML(sdoc.Content[0])
	vnd.Assert(err == nil, "C17.codec.set.yaml.unmarshal")
	vnd.Assert(s3.Len() == s.Len(), "C17.codec.set.yaml.len")
	for k := range s.All() {
		vnd.Assert(s3.Has(k), "C17.codec.set.yaml.has")
	}
	vnd.Cover("C17.codec.end")
}
