package statedb

import (
	"sync"

	"github.com/cilium/statedb/internal/vnd"
)

func init() {
	verifEntries["VerifC10Threads"] = VerifC10Threads
}

// tableLists: table sets in several orders, with duplicates.
var c10lists = [][]int{{0}, {1}, {0, 1}, {1, 0}, {1, 1, 0}, {2, 0}, {0, 2, 1}, {2, 1, 0, 2}}

// VerifC10Threads: T threads, each running write transactions on a symbolic
// table list (any order, duplicates), plus (optionally) a change-iterator
// create/close and a table registration; the VM schedules them at every lock
// acquisition. Any schedule in which some thread can never proceed is a
// deadlock (reported as a violation); the lock-order graph over the whole
// path must be acyclic and no blocking wait may happen with a lock held.
func VerifC10Threads() {
	T := vnd.Param("T", 2)
	db := New(WithMetrics(&NopMetrics{}))
	// NTAB: number of tables of the database (default 3; with NTAB=1 a transaction on {t0} holds every table)
	var tables [3]RWTable[*vobj]
	for i, n := range []string{"t0", "t1", "t2"}[:vnd.Param("NTAB", 3)] {
		t, err := NewTable[*vobj](db, n, vIDIndex)
		if err != nil {
			panic(err)
		}
		tables[i] = t
	}
	var wg sync.WaitGroup
	var newTables []RWTable[*vobj]
	commits := make([][3]int, T)
	writes := make([][3]int, T) // committed inserts per table (a list with duplicates writes the same object again)
	for th := 0; th < T; th++ {
		th := th
		kind := vnd.IntRange("kind", 0, vnd.Param("KINDMAX", 1))
		li := vnd.IntRange("list", 0, vnd.Param("LISTMAX", len(c10lists)-1))
		commit := vnd.Param("COMMITONLY", 0) == 1 || vnd.Bool("commit")
		wg.Add(1)
		vnd.Go(func() {
			defer wg.Done()
			switch kind {
			case 0: // write transaction on a table list
				var metas []TableMeta
				for _, i := range c10lists[li] {
					metas = append(metas, tables[i])
				}
				w := db.WriteTxn(metas...)
				for _, i := range c10lists[li] {
					tables[i].Insert(w, &vobj{id: []byte{byte(th), byte(i)}})
				}
				if commit {
					var inside [3]uint64
					for _, i := range c10lists[li] {
						inside[i] = tables[i].Revision(w)
					}
					rt := w.Commit()
					// the snapshot returned by Commit is the state this transaction published:
					// it contains its writes and nothing committed later by others
					for _, i := range c10lists[li] {
						vnd.Assert(tables[i].Revision(rt) == inside[i], "C02.threads.commit-snapshot-is-the-published-state")
						_, _, ok := tables[i].Get(rt, vIDIndex.Query([]byte{byte(th), byte(i)}))
						vnd.Assert(ok, "C02.threads.commit-snapshot-has-own-write")
					}
					seen := [3]bool{}
					for _, i := range c10lists[li] {
						writes[th][i]++
						if !seen[i] {
							commits[th][i]++
							seen[i] = true
						}
					}
				} else {
					w.Abort()
				}
			case 2: // register a new table and write to it
				nt, err := NewTable[*vobj](db, "n"+string(rune('a'+th)), vIDIndex)
				if err == nil {
					w := db.WriteTxn(nt)
					nt.Insert(w, &vobj{id: []byte{byte(th)}})
					w.Commit()
					newTables = append(newTables, nt)
				}
			case 1: // create and close a change iterator (each takes its own write transaction)
				i := c10lists[li][0]
				w := db.WriteTxn(tables[i])
				it, err := tables[i].Changes(w)
				w.Commit()
				if err == nil {
					it.Next(db.ReadTxn())
					it.Close()
				}
			}
		})
	}
	// a reader never waits
	rt := db.ReadTxn()
	for i := range tables[:vnd.Param("NTAB", 3)] {
		_ = tables[i].NumObjects(rt)
	}
	wg.Wait()
	rt = db.ReadTxn()
	for i := range tables[:vnd.Param("NTAB", 3)] {
		want, wantRev := 0, 0
		for th := range commits {
			want += commits[th][i]
			wantRev += writes[th][i]
		}
		vnd.Assert(tables[i].NumObjects(rt) == want, "C05.threads.no-lost-write")
		// every committed insert got its own revision; writers of other tables do not disturb it
		vnd.Assert(tables[i].Revision(rt) == uint64(wantRev), "C09.threads.revision")
		last := uint64(0)
		for _, rev := range tables[i].LowerBound(rt, ByRevision[*vobj](0)) {
			vnd.Assert(rev > last, "C09.threads.revisions-distinct")
			last = rev
		}
	}
	for _, nt := range newTables {
		vnd.Assert(nt.NumObjects(rt) == 1, "C05.threads.new-table-write-lost")
	}
	acq, cyc, bh := vnd.LockStats()
	vnd.Assert(acq > 0, "C10.monitor-saw-locks")
	vnd.Assert(cyc == 0, "C10.lock-order-acyclic")
	vnd.Assert(bh == 0, "C10.no-blocking-wait-while-holding-a-lock")
	vnd.Assert(vnd.HeldLocks() == 0, "C10.all-locks-released")
	vnd.Cover("C10.end")
}

func init() {
	verifEntries["VerifC10Collector"] = VerifC10Collector
}

// VerifC10Collector: the real graveyard worker (VM thread, virtual time) next to
// an open write transaction. Three tables; one change iterator on a symbolic
// table, optionally a deletion there (the only garbage); a writer then holds a
// symbolic table open while the collector is woken (iterator catches up and/or
// is closed) and given time to run. Transactions on every other table -
// writes, creating and closing an iterator - must run to completion meanwhile
// (a collector that sits on tables it does not need, waiting for the held
// one, shows up as a deadlock of this thread), and afterwards everything is
// granted and the graveyard drains.
func VerifC10Collector() {
	db := New(WithMetrics(&NopMetrics{}))
	var tables [3]RWTable[*vobj]
	for i, n := range []string{"t0", "t1", "t2"} {
		t, err := NewTable[*vobj](db, n, vIDIndex)
		if err != nil {
			panic(err)
		}
		tables[i] = t
		w := db.WriteTxn(t)
		t.Insert(w, &vobj{id: []byte("a")})
		t.Insert(w, &vobj{id: []byte("b")})
		w.Commit()
	}
	db.Start()
	const tick = int64(2_000_000_000)
	ti := vnd.IntRange("itable", 0, 2)
	w := db.WriteTxn(tables[ti])
	it, err := tables[ti].Changes(w)
	vnd.Assert(err == nil, "C10.collector.changes.err")
	w.Commit()
	expect := [3]int{2, 2, 2}
	if vnd.Bool("delete") {
		w := db.WriteTxn(tables[ti])
		tables[ti].Delete(w, &vobj{id: []byte("a")})
		w.Commit()
		expect[ti]--
		vnd.Cover("C10.collector.garbage")
	}
	h := vnd.IntRange("held", 0, 2)
	wh := db.WriteTxn(tables[h])
	tables[h].Insert(wh, &vobj{id: []byte("h")})
	// wake the collector while the table is held
	closed := false
	switch vnd.IntRange("wake", 0, 2) {
	case 0: // the iterator catches up (marks its delete tracker)
		for k := 0; k < 2; k++ {
			seq, _ := it.Next(db.ReadTxn())
			for range seq {
			}
		}
	case 1: // the iterator is closed (takes the iterator's table)
		if ti == h {
			vnd.Assume(false)
		}
		it.Close()
		closed = true
	case 2:
	}
	vnd.Sleep(tick)
	vnd.Settle()
	// everything not sharing the held table runs to completion
	for i := range tables {
		if i == h {
			continue
		}
		w := db.WriteTxn(tables[i])
		tables[i].Insert(w, &vobj{id: []byte("x")})
		it2, err := tables[i].Changes(w)
		vnd.Assert(err == nil, "C10.collector.changes2.err")
		w.Commit()
		expect[i]++
		it2.Close()
		vnd.Cover("C10.collector.other-table-granted")
	}
	rt := db.ReadTxn() // readers never wait
	for i := range tables {
		vnd.Assert(tables[i].NumObjects(rt) == expect[i], "C10.collector.reader-sees-committed")
	}
	wh.Commit()
	expect[h]++
	if !closed {
		for k := 0; k < 2; k++ {
			seq, _ := it.Next(db.ReadTxn())
			for range seq {
			}
		}
		it.Close()
	}
	for k := 0; k < 3; k++ {
		vnd.Sleep(tick)
	}
	vnd.Settle()
	rt = db.ReadTxn()
	for i := range tables {
		vnd.Assert(tables[i].NumObjects(rt) == expect[i], "C05.collector.no-lost-write")
		vnd.Assert(tables[i].(*genTable[*vobj]).numDeletedObjects(rt) == 0, "C08.collector.drained")
	}
	// afterwards any transaction is granted
	w = db.WriteTxn(tables[0], tables[1], tables[2])
	w.Abort()
	db.Stop()
	vnd.Assert(vnd.HeldLocks() == 0, "C10.collector.all-locks-released")
	vnd.Cover("C10.collector.end")
}
