package statedb

import (
	"bytes"

	"github.com/cilium/statedb/index"
	"github.com/cilium/statedb/internal/vnd"
)

func init() {
	verifEntries["VerifC04Indexes"] = VerifC04Indexes
	verifEntries["VerifC04KeySet"] = VerifC04KeySet
}

// irec is one write ever made; present says whether it is the current version
// of its primary key (possibly symbolic).
type irec struct {
	obj     *vobj
	present bool
}

type imodel struct {
	recs []irec
	byID map[*vobj]int
}

func (m *imodel) put(o *vobj) {
	for i := range m.recs {
		m.recs[i].present = vnd.And(m.recs[i].present, vnd.Not(bytes.Equal(m.recs[i].obj.id, o.id)))
	}
	m.byID[o] = len(m.recs)
	m.recs = append(m.recs, irec{o, true})
}

func (m *imodel) del(id []byte) {
	for i := range m.recs {
		m.recs[i].present = vnd.And(m.recs[i].present, vnd.Not(bytes.Equal(m.recs[i].obj.id, id)))
	}
}

func (m *imodel) count(sel func(o *vobj) bool) int {
	n := 0
	for i := range m.recs {
		n += vnd.IteInt(vnd.And(m.recs[i].present, sel(m.recs[i].obj)), 1, 0)
	}
	return n
}

// keyOf says under which index keys an object is filed for the index at pos,
// and builds the stored key for (secondary, primary).
type idxSpec struct {
	pos    int
	unique bool
	keys   func(o *vobj) [][]byte
}

// checkIter verifies one query result of an index: every yielded (key, object)
// is a current object filed under a key that satisfies match, no object is
// yielded twice, none is missing, and keys ascend strictly.
func (m *imodel) checkIter(it tableIndexIterator, spec idxSpec, match func(sec []byte) bool, id string) {
	var keys [][]byte
	var objs []*vobj
	it.All(func(k []byte, o object) bool {
		keys = append(keys, k)
		objs = append(objs, o.data.(*vobj))
		return true
	})
	for j := 0; j+1 < len(keys); j++ {
		vnd.Assert(bytes.Compare(keys[j], keys[j+1]) < 0, id+".ascending")
	}
	for j, o := range objs {
		ri, ok := m.byID[o]
		if !ok {
			vnd.Assert(false, id+".unknown-object")
			return
		}
		for j2 := 0; j2 < j; j2++ {
			vnd.Assert(objs[j2] != o, id+".duplicate")
		}
		vnd.Assert(m.recs[ri].present, id+".stale")
		// the yielded key is the stored key of one of the object's matching index keys
		okKey := false
		for _, sec := range spec.keys(o) {
			var stored []byte
			if spec.unique {
				stored = sec
			} else {
				stored = encodeNonUniqueKey(o.id, sec)
			}
			okKey = vnd.Or(okKey, vnd.And(match(sec), bytes.Equal(keys[j], stored)))
		}
		vnd.Assert(okKey, id+".key")
	}
	want := m.count(func(o *vobj) bool {
		any := false
		for _, sec := range spec.keys(o) {
			any = vnd.Or(any, match(sec))
		}
		return any
	})
	vnd.Assert(len(objs) == want, id+".count")
}

func tagKeys(o *vobj) [][]byte { return o.tags }
func idKeys(o *vobj) [][]byte  { return [][]byte{o.id} }
func uniqKeys(o *vobj) [][]byte {
	return [][]byte{append([]byte{0xAA}, o.id...)}
}

func (m *imodel) checkAll(d *vdb, txn ReadTxn, qid, qtag []byte, id string) {
	t := d.table
	eq := func(q []byte) func([]byte) bool { return func(s []byte) bool { return bytes.Equal(s, q) } }
	pre := func(q []byte) func([]byte) bool { return func(s []byte) bool { return bytes.HasPrefix(s, q) } }
	lb := func(q []byte) func([]byte) bool { return func(s []byte) bool { return bytes.Compare(s, q) >= 0 } }
	all := func([]byte) bool { return true }

	vnd.Assert(t.NumObjects(txn) == m.count(func(*vobj) bool { return true }), id+".numobjects")

	// by-revision: every current object exactly once, ascending revisions
	nrev := 0
	last := uint64(0)
	for o, rev := range t.LowerBound(txn, ByRevision[*vobj](0)) {
		ri, ok := m.byID[o]
		vnd.Assert(ok, id+".byrevision.unknown")
		if ok {
			vnd.Assert(m.recs[ri].present, id+".byrevision.stale")
		}
		vnd.Assert(rev > last, id+".byrevision.ascending")
		last = rev
		nrev++
	}
	vnd.Assert(nrev == m.count(func(*vobj) bool { return true }), id+".byrevision.count")

	prim := idxSpec{PrimaryIndexPos, true, idKeys}
	pi := txn.mustIndexReadTxn(t, PrimaryIndexPos)
	it, _ := pi.all()
	m.checkIter(it, prim, all, id+".primary.all")
	it, _ = pi.list(qid)
	m.checkIter(it, prim, eq(qid), id+".primary.list")
	it, _ = pi.prefix(qid)
	m.checkIter(it, prim, pre(qid), id+".primary.prefix")
	it, _ = pi.lowerBound(qid)
	m.checkIter(it, prim, lb(qid), id+".primary.lowerbound")
	_, _, found := pi.get(qid)
	vnd.Assert(vnd.Iff(found, m.count(func(o *vobj) bool { return bytes.Equal(o.id, qid) }) > 0), id+".primary.get")

	uq := append([]byte{0xAA}, qid...)
	us := idxSpec{t.indexPos("uniq"), true, uniqKeys}
	ui := txn.mustIndexReadTxn(t, us.pos)
	it, _ = ui.list(uq)
	m.checkIter(it, us, eq(uq), id+".uniq.list")
	it, _ = ui.prefix([]byte{0xAA})
	m.checkIter(it, us, all, id+".uniq.prefix")

	ts := idxSpec{t.indexPos("tags"), false, tagKeys}
	ti := txn.mustIndexReadTxn(t, ts.pos)
	it, _ = ti.list(qtag)
	m.checkIter(it, ts, eq(qtag), id+".tags.list")
	it, _ = ti.prefix(qtag)
	m.checkIter(it, ts, pre(qtag), id+".tags.prefix")
	it, _ = ti.lowerBound(qtag)
	m.checkIter(it, ts, lb(qtag), id+".tags.lowerbound")
	_, _, found = ti.get(qtag)
	vnd.Assert(vnd.Iff(found, m.count(func(o *vobj) bool {
		any := false
		for _, s := range o.tags {
			any = vnd.Or(any, bytes.Equal(s, qtag))
		}
		return any
	}) > 0), id+".tags.get")

	// public API: List on the unique index with the same key as Get
	o, _, ok := t.Get(txn, vUniqIndex.Query(uq))
	n := 0
	for lo := range t.List(txn, vUniqIndex.Query(uq)) {
		vnd.Assert(lo == o, id+".uniq.list-vs-get")
		n++
	}
	vnd.Assert(vnd.Iff(ok, n == 1), id+".uniq.list-count")
	o2, _, ok2 := t.Get(txn, vIDIndex.Query(qid))
	n = 0
	for lo := range t.List(txn, vIDIndex.Query(qid)) {
		vnd.Assert(lo == o2, id+".primary.list-vs-get")
		n++
	}
	vnd.Assert(vnd.Iff(ok2, n == 1), id+".primary.list-count")
}

// VerifC04Indexes: after N symbolic upserts (tag sets of 0..2 keys that may be
// nil, empty or contain any byte; updates change the key set) and deletes,
// every index answers every query kind exactly and in order, inside the write
// transaction and on the committed snapshot.
func VerifC04Indexes() {
	N := vnd.Param("N", 2)
	L := vnd.Param("L", 1)
	bytesOrNil := vnd.BytesOrNil
	if vnd.Param("NILKEYS", 1) == 0 {
		bytesOrNil = vnd.Bytes
	}
	d := newVDB(vUniqIndex, vTagsIndex)
	m := &imodel{byID: map[*vobj]int{}}
	w := d.db.WriteTxn(d.table)
	for i := 0; i < vnd.Param("PRE", 0); i++ {
		// concrete pre-state: objects with two tags each, one tag shared
		o := &vobj{id: []byte{byte('a' + i)}, tags: [][]byte{{'x'}, {byte('y' + i)}}, val: uint64(50 + i)}
		d.table.Insert(w, o)
		m.put(o)
	}
	// BIGPRE: primary keys "p" and "p"+17 distinct bytes (a node48 carrying a
	// value in the primary index; one delete shrinks it to a node16)
	if bp := vnd.Param("BIGPRE", 0); bp > 0 {
		o := &vobj{id: []byte{'p'}, tags: [][]byte{{'x'}}, val: 40}
		d.table.Insert(w, o)
		m.put(o)
		for i := 0; i < bp; i++ {
			o := &vobj{id: []byte{'p', byte('A' + i)}, tags: [][]byte{{'x'}}, val: uint64(60 + i)}
			d.table.Insert(w, o)
			m.put(o)
		}
	}
	if vnd.Param("PRE", 0) > 0 || vnd.Param("BIGPRE", 0) > 0 {
		w.Commit()
		w = d.db.WriteTxn(d.table)
	}
	for i := 0; i < N; i++ {
		id := bytesOrNil("id", L)
		if bp := vnd.Param("BIGPRE", 0); bp > 0 {
			// keys around the big node: "p" + one byte next to / among its children
			b := vnd.Byte("idb")
			vnd.Assume(vnd.And(b >= 'A'-1, b <= byte('A'+bp)))
			id = []byte{'p', b}
		}
		op := vnd.IntRange("op", vnd.Param("OPMIN", 0), 2+vnd.Param("REJECTED", 1))
		if op == 3 {
			// always-rejected compare-and-delete / compare-and-swap: nothing changes
			if vnd.Bool("cad") {
				d.table.CompareAndDelete(w, 1<<40, &vobj{id: id})
			} else {
				d.table.CompareAndSwap(w, 1<<40, &vobj{id: id, val: 77})
			}
			vnd.Cover("C04.rejected-op")
			continue
		}
		if op < 2 {
			nt := vnd.IntRange("ntags", 0, vnd.Param("NTAGSMAX", 2))
			var tags [][]byte
			for j := 0; j < nt; j++ {
				tags = append(tags, bytesOrNil("tag", 1))
			}
			if nt == 2 {
				// a key set holds distinct keys
				vnd.Assume(vnd.Not(bytes.Equal(tags[0], tags[1])))
			}
			if vnd.Known("KF-keyset-nil-head", nt > 0 && tags[0] == nil) {
				vnd.Assume(false)
			}
			o := &vobj{id: id, tags: tags, val: uint64(i)}
			d.table.Insert(w, o)
			m.put(o)
			if nt == 2 {
				vnd.Cover("C04.two-tags")
			}
		} else {
			d.table.Delete(w, &vobj{id: id})
			m.del(id)
		}
		if i == N/2-1+N%2 && vnd.Param("MIDCOMMIT", 1) == 1 {
			w.Commit()
			w = d.db.WriteTxn(d.table)
		}
	}
	qid := bytesOrNil("qid", L)
	qtag := bytesOrNil("qtag", 1)
	if vnd.Known("KF-singleton-nil-key", qid == nil) {
		vnd.Assume(false)
	}
	if vnd.IntRange("view", 0, 1) == 0 {
		m.checkAll(d, w, qid, qtag, "C04.wtxn")
		w.Abort()
	} else {
		rt := w.Commit()
		m.checkAll(d, rt, qid, qtag, "C04.snapshot")
	}
	vnd.Cover("C04.end")
}

// VerifC04KeySet: KeySet agrees with the list of keys it was built from.
func VerifC04KeySet() {
	n := vnd.IntRange("n", 0, 3)
	var keys []index.Key
	for i := 0; i < n; i++ {
		keys = append(keys, vnd.BytesOrNil("k", 1))
	}
	ks := index.NewKeySet(keys...)
	var seen []index.Key
	ks.Foreach(func(k index.Key) { seen = append(seen, k) })
	vnd.Assert(len(seen) == n, "C04.keyset.foreach-count")
	for i := 0; i < n && i < len(seen); i++ {
		vnd.Assert(bytes.Equal(seen[i], keys[i]), "C04.keyset.foreach-order")
	}
	q := vnd.BytesOrNil("q", 1)
	want := false
	for _, k := range keys {
		want = vnd.Or(want, bytes.Equal(k, q))
	}
	vnd.Assert(vnd.Iff(ks.Exists(q), want), "C04.keyset.exists")
	if n > 0 {
		vnd.Assert(bytes.Equal(ks.First(), keys[0]), "C04.keyset.first")
	}
	// StringSlice builds the same set
	var ss []string
	for _, k := range keys {
		ss = append(ss, string(k))
	}
	n2 := 0
	index.StringSlice(ss).Foreach(func(index.Key) { n2++ })
	vnd.Assert(n2 == n, "C04.keyset.stringslice-count")
	vnd.Cover("C04.keyset.end")
}
