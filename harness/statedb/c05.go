package statedb

import (
	"github.com/cilium/statedb/internal/vnd"
)

func init() {
	verifEntries["VerifC05Serial"] = VerifC05Serial
	verifEntries["VerifKFCommitDropsNewTable"] = VerifKFCommitDropsNewTable
}

// VerifC05Serial (sequential, two logical actors; the VM's lock monitor
// decides "would block"): while actor 1's write transaction on a symbolic
// table set is in flight, actor 2 - at a symbolic point - runs a complete
// transaction on a symbolic table set, registers a new table, or reads.
// A transaction sharing a table with the open one must block exactly while it
// is open; everything else must run to completion, and no committed write may
// be lost, whatever the order of commits.
func VerifC05Serial() {
	db := New(WithMetrics(&NopMetrics{}))
	var tables [3]RWTable[*vobj]
	names := []string{"t0", "t1", "t2"}
	for i := 0; i < 2; i++ {
		t, err := NewTable[*vobj](db, names[i], vIDIndex)
		if err != nil {
			panic(err)
		}
		tables[i] = t
	}
	ntables := 2
	// expected committed contents: per table a count of marker objects
	var expect [3]int

	s1 := vnd.IntRange("s1", 1, 3) // bitmask over {t0,t1}
	point := vnd.IntRange("point", 0, 2)
	action := vnd.IntRange("action", 0, 3)
	s2 := 0
	if action == 0 {
		s2 = vnd.IntRange("s2", 1, 3)
	}

	set := func(mask int) []TableMeta {
		var out []TableMeta
		for i := 0; i < 2; i++ {
			if mask&(1<<i) != 0 {
				out = append(out, tables[i])
			}
		}
		return out
	}
	var w1 WriteTxn
	w1open := false
	actor2 := func() {
		vnd.Actor(2)
		defer vnd.Actor(1)
		switch action {
		case 0: // complete transaction on s2
			run := func() {
				w := db.WriteTxn(set(s2)...)
				for i := 0; i < 2; i++ {
					if s2&(1<<i) != 0 {
						// sees every write committed earlier
						vnd.Assert(tables[i].NumObjects(w) == expect[i], "C05.sees-earlier-commits")
						tables[i].Insert(w, &vobj{id: []byte{'B', byte(i)}})
					}
				}
				w.Commit()
			}
			blocked := vnd.WouldBlock(run)
			shares := w1open && (s1&s2) != 0
			vnd.Assert(blocked == shares, "C05.blocks-iff-shares-table")
			if !blocked {
				for i := 0; i < 2; i++ {
					if s2&(1<<i) != 0 {
						expect[i]++
					}
				}
				vnd.Cover("C05.disjoint-commit")
			} else {
				vnd.Cover("C05.blocked")
			}
		case 1: // register a table (and write to it)
			blocked := vnd.WouldBlock(func() {
				// a rejected registration (duplicate name) must leave nothing behind
				_, derr := NewTable[*vobj](db, names[0], vIDIndex)
				vnd.Assert(derr != nil, "C05.duplicate-table-accepted")
				t, err := NewTable[*vobj](db, names[2], vIDIndex)
				if err != nil {
					panic(err)
				}
				tables[2] = t
				ntables = 3
				w := db.WriteTxn(t)
				t.Insert(w, &vobj{id: []byte{'N'}})
				w.Commit()
				expect[2]++
				// ... and then a transaction on every table the open one does not hold
				for i := 0; i < 2; i++ {
					if w1open && s1&(1<<i) != 0 {
						continue
					}
					wd := db.WriteTxn(tables[i])
					tables[i].Insert(wd, &vobj{id: []byte{'D', byte(i)}})
					wd.Commit()
					expect[i]++
					vnd.Cover("C05.newtable-then-disjoint-commit")
				}
			})
			vnd.Assert(!blocked, "C05.newtable-never-blocks")
			vnd.Cover("C05.newtable")
		case 2: // reader
			blocked := vnd.WouldBlock(func() {
				rt := db.ReadTxn()
				for i := 0; i < 2; i++ {
					vnd.Assert(tables[i].NumObjects(rt) == expect[i], "C05.reader-sees-committed-only")
				}
			})
			vnd.Assert(!blocked, "C05.readers-never-wait")
		case 3:
		}
	}

	vnd.Actor(1)
	if point == 0 {
		actor2()
	}
	w1 = db.WriteTxn(set(s1)...)
	w1open = true
	for i := 0; i < 2; i++ {
		if s1&(1<<i) != 0 {
			vnd.Assert(tables[i].NumObjects(w1) == expect[i], "C05.sees-earlier-commits")
		}
	}
	if point == 1 {
		actor2()
	}
	for i := 0; i < 2; i++ {
		if s1&(1<<i) != 0 {
			tables[i].Insert(w1, &vobj{id: []byte{'A', byte(i)}})
		}
	}
	if point == 2 {
		actor2()
	}
	if vnd.Bool("commit1") {
		w1.Commit()
		for i := 0; i < 2; i++ {
			if s1&(1<<i) != 0 {
				expect[i]++
			}
		}
	} else {
		w1.Abort()
	}
	w1open = false
	vnd.Assert(vnd.HeldLocks() == 0, "C05.all-locks-released")
	// afterwards a transaction on any table set is granted
	blocked := vnd.WouldBlock(func() {
		w := db.WriteTxn(set(3)...)
		w.Abort()
	})
	vnd.Assert(!blocked, "C05.granted-after-finish")
	// no committed write was lost; every registered table is readable
	rt := db.ReadTxn()
	for i := 0; i < ntables; i++ {
		vnd.Assert(tables[i].NumObjects(rt) == expect[i], "C05.no-lost-write")
	}
	acq, cyc, bh := vnd.LockStats()
	vnd.Assert(acq > 0, "C05.monitor-saw-locks")
	vnd.Assert(cyc == 0, "C10.lock-order-acyclic")
	vnd.Assert(bh == 0, "C10.no-blocking-wait-while-holding-a-lock")
	vnd.Cover("C05.end")
}

// VerifKFCommitDropsNewTable: a table registered while a write transaction is
// open must survive that transaction's Commit.
func VerifKFCommitDropsNewTable() {
	db := New(WithMetrics(&NopMetrics{}))
	t0, _ := NewTable[*vobj](db, "t0", vIDIndex)
	w := db.WriteTxn(t0)
	t0.Insert(w, &vobj{id: []byte("a")})
	t1, err := NewTable[*vobj](db, "t1", vIDIndex)
	vnd.Assert(err == nil, "KF-commit-drops-new-table.register")
	w.Commit()
	vnd.Assert(len(db.ReadTxn().root()) == 2, "KF-commit-drops-new-table.root-length")
	vnd.Assert(t1.NumObjects(db.ReadTxn()) == 0, "KF-commit-drops-new-table.readable")
}
