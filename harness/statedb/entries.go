package statedb

// verifEntries maps harness entry names to functions (native replay).
var verifEntries = map[string]func(){}
