package statedb

import (
	"github.com/cilium/statedb/index"
	"github.com/cilium/statedb/internal/vnd"
)

// vobj is the object type of all DB-level harnesses. Objects are immutable
// once inserted (a new *vobj is allocated for every write).
type vobj struct {
	id   []byte   // primary key
	tags [][]byte // non-unique multi-key secondary index (0..2 keys)
	pfx  []byte   // LPM index key data
	plen uint16   // LPM prefix length
	val  uint64   // payload
}

func (o *vobj) TableHeader() []string { return nil }
func (o *vobj) TableRow() []string    { return nil }

var (
	vIDIndex = Index[*vobj, []byte]{
		Name:       "id",
		FromObject: func(o *vobj) index.KeySet { return index.NewKeySet(index.Key(o.id)) },
		FromKey:    func(k []byte) index.Key { return k },
		Unique:     true,
	}
	// unique secondary index derived from the primary key (0xAA prefix), so
	// that uniqueness holds by construction
	vUniqIndex = Index[*vobj, []byte]{
		Name: "uniq",
		FromObject: func(o *vobj) index.KeySet {
			k := append([]byte{0xAA}, o.id...)
			return index.NewKeySet(index.Key(k))
		},
		FromKey: func(k []byte) index.Key { return k },
		Unique:  true,
	}
	vTagsIndex = Index[*vobj, []byte]{
		Name: "tags",
		FromObject: func(o *vobj) index.KeySet {
			keys := make([]index.Key, 0, len(o.tags))
			for _, t := range o.tags {
				keys = append(keys, index.Key(t))
			}
			return index.NewKeySet(keys...)
		},
		FromKey: func(k []byte) index.Key { return k },
		Unique:  false,
	}
)

type vdb struct {
	db    *DB
	table RWTable[*vobj]
}

// newVDB creates a database with one table "objs" with the given secondary indexes.
func newVDB(secondary ...Indexer[*vobj]) *vdb {
	db := New(WithMetrics(&NopMetrics{}))
	t, err := NewTable[*vobj](db, "objs", vIDIndex, secondary...)
	if err != nil {
		panic(err)
	}
	return &vdb{db: db, table: t}
}

// collectObjs drains a query result into parallel slices (primary keys, payloads, revisions).
func collectObjs(seq func(yield func(*vobj, Revision) bool)) (ids [][]byte, vals []uint64, revs []uint64) {
	seq(func(o *vobj, r Revision) bool {
		ids = append(ids, o.id)
		vals = append(vals, o.val)
		revs = append(revs, r)
		return true
	})
	return
}

// dbModel is the oracle for one table: payloads and revisions keyed by primary key.
type dbModel struct {
	vals *vnd.Map
	revs *vnd.Map
	rev  uint64 // table revision (may be symbolic)
}

func newDBModel() *dbModel { return &dbModel{vals: &vnd.Map{}, revs: &vnd.Map{}} }

func (m *dbModel) snapshot() *dbModel {
	return &dbModel{vals: m.vals.Snapshot(), revs: m.revs.Snapshot(), rev: m.rev}
}

// checkTable compares the primary-index view of a transaction with the model.
func checkTable(t Table[*vobj], txn ReadTxn, m *dbModel, q []byte, id string) {
	vnd.Assert(t.NumObjects(txn) == m.vals.Len(), id+".numobjects")
	vnd.Assert(t.Revision(txn) == m.rev, id+".revision")
	o, rev, ok := t.Get(txn, vIDIndex.Query(q))
	mv, mok := m.vals.Get(q)
	mr, _ := m.revs.Get(q)
	vnd.Assert(vnd.Iff(ok, mok), id+".get.found")
	if ok {
		vnd.Assert(vnd.Implies(mok, vnd.And(o.val == mv, rev == mr)), id+".get.value")
	}
	ids, vals, revs := collectObjs(t.All(txn))
	m.vals.CheckOrdered(ids, vals, vnd.SelAll, id+".all")
	m.revs.CheckOrdered(ids, revs, vnd.SelAll, id+".all.revs")
}
