package statedb

import (
	"iter"

	"github.com/cilium/statedb/index"
	"github.com/cilium/statedb/internal/vnd"
)

// vobj is the object type of all DB-level harnesses. Objects are immutable
// once inserted (a new *vobj is allocated for every write).
type vobj struct {
	id   []byte   // primary key
	tags [][]byte // non-unique multi-key secondary index (0..2 keys)
	pfx  []byte   // LPM index key data
	plen uint16   // LPM prefix length
	pfx2 []byte   // optional second LPM key
	pln2 uint16
	val  uint64 // payload
}

func (o *vobj) TableHeader() []string { return nil }
func (o *vobj) TableRow() []string    { return nil }

var (
	vIDIndex = Index[*vobj, []byte]{
		Name:       "id",
		FromObject: func(o *vobj) index.KeySet { return index.NewKeySet(index.Key(o.id)) },
		FromKey:    func(k []byte) index.Key { return k },
		Unique:     true,
	}
	// unique secondary index derived from the primary key (0xAA prefix), so
	// that uniqueness holds by construction
	vUniqIndex = Index[*vobj, []byte]{
		Name: "uniq",
		FromObject: func(o *vobj) index.KeySet {
			k := append([]byte{0xAA}, o.id...)
			return index.NewKeySet(index.Key(k))
		},
		FromKey: func(k []byte) index.Key { return k },
		Unique:  true,
	}
	vTagsIndex = Index[*vobj, []byte]{
		Name: "tags",
		FromObject: func(o *vobj) index.KeySet {
			keys := make([]index.Key, 0, len(o.tags))
			for _, t := range o.tags {
				keys = append(keys, index.Key(t))
			}
			return index.NewKeySet(keys...)
		},
		FromKey: func(k []byte) index.Key { return k },
		Unique:  false,
	}
)

type vdb struct {
	db    *DB
	table RWTable[*vobj]
}

// newVDB creates a database with one table "objs" with the given secondary indexes.
func newVDB(secondary ...Indexer[*vobj]) *vdb {
	db := New(WithMetrics(&NopMetrics{}))
	t, err := NewTable[*vobj](db, "objs", vIDIndex, secondary...)
	if err != nil {
		panic(err)
	}
	return &vdb{db: db, table: t}
}

// collectObjs drains a query result into parallel slices (primary keys, payloads, revisions).
func collectObjs(seq func(yield func(*vobj, Revision) bool)) (ids [][]byte, vals []uint64, revs []uint64) {
	seq(func(o *vobj, r Revision) bool {
		ids = append(ids, o.id)
		vals = append(vals, o.val)
		revs = append(revs, r)
		return true
	})
	return
}

// dbModel is the oracle for one table: payloads and revisions keyed by primary key.
type dbModel struct {
	vals *vnd.Map
	revs *vnd.Map
	rev  uint64 // table revision (may be symbolic)
}

func newDBModel() *dbModel { return &dbModel{vals: &vnd.Map{}, revs: &vnd.Map{}} }

func (m *dbModel) snapshot() *dbModel {
	return &dbModel{vals: m.vals.Snapshot(), revs: m.revs.Snapshot(), rev: m.rev}
}

// pa asserts c under id unless the harness run is focused (param FOCUS) on
// another property than the one the id belongs to (ids start with "Cnn.").
func pa(c bool, id string) {
	if f := vnd.Param("FOCUS", 0); f != 0 {
		want := "C0" + string(rune('0'+f)) + "."
		if f >= 10 {
			want = "C" + string(rune('0'+f/10)) + string(rune('0'+f%10)) + "."
		}
		if len(id) < 4 || id[:4] != want {
			return
		}
	}
	vnd.Assert(c, id)
}

// checkTable compares the primary-index view of a transaction with the model.
// Content assertions are filed under C03, revision assertions under C09.
func checkTable(t Table[*vobj], txn ReadTxn, m *dbModel, q []byte, what string) {
	pa(t.NumObjects(txn) == m.vals.Len(), "C03."+what+".numobjects")
	pa(t.Revision(txn) == m.rev, "C09."+what+".revision")
	o, rev, ok := t.Get(txn, vIDIndex.Query(q))
	mv, mok := m.vals.Get(q)
	mr, _ := m.revs.Get(q)
	pa(vnd.Iff(ok, mok), "C03."+what+".get.found")
	if ok {
		pa(vnd.Implies(mok, o.val == mv), "C03."+what+".get.value")
		pa(vnd.Implies(mok, rev == mr), "C09."+what+".get.revision")
	}
	ids, vals, revs := collectObjs(t.All(txn))
	if f := vnd.Param("FOCUS", 0); f == 0 || f == 3 {
		m.vals.CheckOrdered(ids, vals, vnd.SelAll, "C03."+what+".all")
	}
	if f := vnd.Param("FOCUS", 0); f == 0 || f == 9 {
		m.revs.CheckOrdered(ids, revs, vnd.SelAll, "C09."+what+".all.revs")
	}
}

// LPM index over (pfx, plen); non-unique so that several objects share a prefix.
var vLPMIndex = LPMIndex[*vobj]{
	Name: "lpm",
	FromObject: func(o *vobj) iter.Seq2[[]byte, PrefixLen] {
		return func(yield func([]byte, PrefixLen) bool) {
			if o.pfx != nil {
				if !yield(o.pfx, o.plen) {
					return
				}
			}
			if o.pfx2 != nil {
				yield(o.pfx2, o.pln2)
			}
		}
	},
	Unique: false,
}

// obsItem is one element of an observation: the object (by identity) and the
// revision reported with it.
type obsItem struct {
	obj *vobj
	rev uint64
}

type observation struct {
	lists [][]obsItem
	nums  []uint64
}

func (o *observation) addSeq(seq func(yield func(*vobj, Revision) bool)) {
	var l []obsItem
	seq(func(ob *vobj, r Revision) bool {
		l = append(l, obsItem{ob, r})
		return true
	})
	o.lists = append(o.lists, l)
}

func (o *observation) addGet(ob *vobj, rev uint64, ok bool) {
	if ok {
		o.lists = append(o.lists, []obsItem{{ob, rev}})
	} else {
		o.lists = append(o.lists, nil)
	}
}

// sameObs asserts that two observations are identical (same objects by
// pointer, same revisions, same order, same counts).
func sameObs(a, b *observation, id string) {
	vnd.Assert(len(a.lists) == len(b.lists), id+".shape")
	for i := range a.lists {
		if len(a.lists[i]) != len(b.lists[i]) {
			vnd.Assert(false, id+".length")
			return
		}
		for j := range a.lists[i] {
			vnd.Assert(a.lists[i][j].obj == b.lists[i][j].obj, id+".object")
			vnd.Assert(a.lists[i][j].rev == b.lists[i][j].rev, id+".revision")
		}
	}
	for i := range a.nums {
		vnd.Assert(a.nums[i] == b.nums[i], id+".number")
	}
}
