package statedb

import (
	"github.com/cilium/statedb/internal/vnd"
)

func init() { verifEntries["VerifC01WtxnIter"] = VerifC01WtxnIter }

// VerifC01WtxnIter: an iterator obtained from a query made through a write
// transaction is frozen at the moment of the query: later writes of the same
// transaction do not change what it yields when it is consumed afterwards.
// One iterator kind per path (each query freezes the index it reads, several
// together would mask a missing freeze in one of them). Ids are drawn from
// {a,b,c}; every object carries tag 't' and LPM prefix 0x10/4, so the expected
// sequence (by primary key, or by revision) follows from the harness' own list.
func VerifC01WtxnIter() {
	d := newVDB(vTagsIndex, vLPMIndex)
	t := d.table
	ids := []string{"a", "b", "c"}
	type slot struct {
		obj *vobj
		rev uint64
	}
	var cur [3]slot
	rev := uint64(0)
	w := d.db.WriteTxn(t)
	write := func(tag string, val uint64) {
		i := vnd.IntRange(tag+".id", 0, 2)
		if vnd.Bool(tag + ".insert") {
			o := &vobj{id: []byte(ids[i]), tags: [][]byte{{'t'}}, pfx: []byte{0x10}, plen: 4, val: val}
			t.Insert(w, o)
			rev++
			cur[i] = slot{o, rev}
		} else {
			_, had, _ := t.Delete(w, &vobj{id: []byte(ids[i])})
			if had {
				rev++
			}
			cur[i] = slot{}
		}
	}
	// pre-state: a and b committed
	for i := 0; i < 2; i++ {
		o := &vobj{id: []byte(ids[i]), tags: [][]byte{{'t'}}, pfx: []byte{0x10}, plen: 4, val: uint64(50 + i)}
		t.Insert(w, o)
		rev++
		cur[i] = slot{o, rev}
	}
	if vnd.Bool("commit-pre") {
		w.Commit()
		w = d.db.WriteTxn(t)
	}
	write("w1", 1)
	// expected now, by primary key and by revision
	var byID, byRev []obsItem
	for _, s := range cur {
		if s.obj != nil {
			byID = append(byID, obsItem{s.obj, s.rev})
		}
	}
	for r := uint64(1); r <= rev; r++ {
		for _, s := range cur {
			if s.obj != nil && s.rev == r {
				byRev = append(byRev, obsItem{s.obj, s.rev})
			}
		}
	}
	var seq func(yield func(*vobj, Revision) bool)
	want := byID
	name := ""
	switch vnd.IntRange("kind", 0, 7) {
	case 0:
		seq, name = t.All(w), "all"
	case 1:
		seq, name = t.Prefix(w, vIDIndex.Query([]byte{})), "prefix-id"
	case 2:
		seq, name = t.LowerBound(w, vIDIndex.Query([]byte{})), "lowerbound-id"
	case 3:
		seq, name = t.List(w, vTagsIndex.Query([]byte{'t'})), "list-tags"
	case 4:
		seq, name = t.Prefix(w, vTagsIndex.Query([]byte{})), "prefix-tags"
	case 5:
		seq, name, want = t.LowerBound(w, ByRevision[*vobj](0)), "lowerbound-revision", byRev
	case 6:
		seq, name = t.Prefix(w, vLPMIndex.Query([]byte{}, 0)), "prefix-lpm"
	case 7:
		seq, name = t.List(w, vLPMIndex.Query([]byte{0x10}, 4)), "list-lpm"
	}
	// later writes of the same transaction
	write("w2", 2)
	if vnd.Bool("third") {
		write("w3", 3)
	}
	got := seqItems(seq)
	if len(got) != len(want) {
		vnd.Assert(false, "C01.wtxn-iterator."+name+".length")
	} else {
		for i := range got {
			vnd.Assert(got[i].obj == want[i].obj, "C01.wtxn-iterator."+name+".object")
			vnd.Assert(got[i].rev == want[i].rev, "C01.wtxn-iterator."+name+".revision")
		}
	}
	if vnd.Bool("commit") {
		w.Commit()
	} else {
		w.Abort()
	}
	vnd.Cover("C01.wtxn-iterator.end")
}
