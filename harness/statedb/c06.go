package statedb

import (
	"github.com/cilium/statedb/internal/vnd"
)

func init() {
	verifEntries["VerifC06Watch"] = VerifC06Watch
	verifEntries["VerifKFWtxnGetWatch"] = VerifKFWtxnGetWatch
}

// VerifKFWtxnGetWatch: plain probe of KF-wtxn-get-watch. A point query made
// through a write transaction after that transaction's first write returns
// the channel of a radix node the transaction created; a later insert of the
// queried key in the same transaction must close it on Commit.
func VerifKFWtxnGetWatch() {
	d := newVDB()
	t := d.table
	w := d.db.WriteTxn(t)
	t.Insert(w, &vobj{id: []byte("b")})
	t.Insert(w, &vobj{id: []byte("d")})
	w.Commit()
	w = d.db.WriteTxn(t)
	t.Insert(w, &vobj{id: []byte("c")})
	_, _, ch, ok := t.GetWatch(w, vIDIndex.Query([]byte("e")))
	vnd.Assert(!ok, "KF-wtxn-get-watch.harness")
	vnd.Assert(!vnd.IsClosed(ch), "KF-wtxn-get-watch.open-when-handed-out")
	t.Insert(w, &vobj{id: []byte("e")})
	w.Commit()
	vnd.Assert(vnd.IsClosed(ch), "KF-wtxn-get-watch.missed-change")
}

type c06watch struct {
	name            string
	ch              <-chan struct{}
	result          func(txn ReadTxn) []obsItem // the query whose result the channel guards
	before          []obsItem
	table           bool // table-wide watch: any change of the table
	seenClosedRevOK bool
}

func seqItems(seq func(yield func(*vobj, Revision) bool)) []obsItem {
	var l []obsItem
	seq(func(o *vobj, r Revision) bool {
		l = append(l, obsItem{o, r})
		return true
	})
	return l
}

func sameItems(a, b []obsItem) bool {
	if len(a) != len(b) {
		return false
	}
	for i := range a {
		if a[i].obj != b[i].obj || a[i].rev != b[i].rev {
			return false
		}
	}
	return true
}

// VerifC06Watch: watch channels of snapshot queries (every *Watch variant on
// the primary, non-unique and LPM indexes, and InsertWatch) against a later
// transaction of N symbolic writes, committed or aborted. A channel must be
// closed when Commit returns if its query's result changed; never by an abort;
// open when handed out; and whenever the VM's sync observer sees it closed a
// snapshot taken there already shows a newer table revision.
func VerifC06Watch() {
	N := vnd.Param("N", 2)
	L := vnd.Param("L", 1)
	d := newVDB(vTagsIndex, vLPMIndex)
	t := d.table
	w := d.db.WriteTxn(t)
	t.Insert(w, &vobj{id: []byte("b"), tags: [][]byte{{'t'}}, pfx: []byte{0x10}, plen: 4})
	_, _, insW, _ := t.InsertWatch(w, &vobj{id: []byte("d"), tags: [][]byte{{'t'}, {'u'}}, pfx: []byte{0x10}, plen: 4})
	vnd.Assert(!vnd.IsClosed(insW), "C06.insertwatch.open-when-handed-out")
	w.Commit()

	if vnd.Param("PRESET", 0) == 1 {
		// primary keys that are prefixes of each other: "ab" ends up as an inner
		// radix node holding an object but no children
		w = d.db.WriteTxn(t)
		for _, k := range []string{"ab", "abc"} {
			t.Insert(w, &vobj{id: []byte(k), tags: [][]byte{{'t'}}, pfx: []byte{0x10}, plen: 4})
		}
		w.Commit()
		w = d.db.WriteTxn(t)
		t.Delete(w, &vobj{id: []byte("abc")})
		w.Commit()
	}
	if vnd.Param("PRESET", 0) == 2 {
		// five primary keys that share a prefix and differ in the next byte (a radix
		// node with exactly 5 children: deleting one crosses the node16/node4 threshold)
		w = d.db.WriteTxn(t)
		for _, k := range []string{"a1", "a2", "a3", "a4", "a5"} {
			t.Insert(w, &vobj{id: []byte(k), tags: [][]byte{{'t'}}, pfx: []byte{0x10}, plen: 4})
		}
		w.Commit()
	}
	S := d.db.ReadTxn()
	revS := t.Revision(S)
	qid := vnd.Bytes("qid", L)
	qtag := []byte{'t'}
	var ws []*c06watch
	add := func(name string, ch <-chan struct{}, table bool, result func(txn ReadTxn) []obsItem) {
		vnd.Assert(!vnd.IsClosed(ch), "C06."+name+".open-when-handed-out")
		ws = append(ws, &c06watch{name: name, ch: ch, result: result, before: result(S), table: table})
	}
	if vnd.Param("WTXNQ", 0) == 0 {
		_, _, ch, _ := t.GetWatch(S, vIDIndex.Query(qid))
		add("get", ch, false, func(txn ReadTxn) []obsItem {
			o, r, ok := t.Get(txn, vIDIndex.Query(qid))
			if !ok {
				return nil
			}
			return []obsItem{{o, r}}
		})
		_, ch = t.ListWatch(S, vTagsIndex.Query(qtag))
		add("list-tags", ch, false, func(txn ReadTxn) []obsItem { return seqItems(t.List(txn, vTagsIndex.Query(qtag))) })
		_, ch = t.PrefixWatch(S, vIDIndex.Query(qid))
		add("prefix", ch, false, func(txn ReadTxn) []obsItem { return seqItems(t.Prefix(txn, vIDIndex.Query(qid))) })
		_, ch = t.LowerBoundWatch(S, vIDIndex.Query(qid))
		add("lowerbound", ch, false, func(txn ReadTxn) []obsItem { return seqItems(t.LowerBound(txn, vIDIndex.Query(qid))) })
		_, ch = t.AllWatch(S)
		add("all", ch, true, func(txn ReadTxn) []obsItem { return seqItems(t.All(txn)) })
		_, ch = t.ListWatch(S, vLPMIndex.Query([]byte{0x10}, 4))
		add("list-lpm", ch, false, func(txn ReadTxn) []obsItem { return seqItems(t.List(txn, vLPMIndex.Query([]byte{0x10}, 4))) })
		_, ch = t.PrefixWatch(S, vTagsIndex.Query([]byte{}))
		add("prefix-tags", ch, false, func(txn ReadTxn) []obsItem { return seqItems(t.Prefix(txn, vTagsIndex.Query([]byte{}))) })
		// InsertWatch from the earlier transaction: guards the object "d"
		ws = append(ws, &c06watch{name: "insertwatch", ch: insW, result: func(txn ReadTxn) []obsItem {
			o, r, ok := t.Get(txn, vIDIndex.Query([]byte("d")))
			if !ok {
				return nil
			}
			return []obsItem{{o, r}}
		}})
		ws[len(ws)-1].before = ws[len(ws)-1].result(S)
	}

	w = d.db.WriteTxn(t)
	vnd.SetSyncObserver(func(point string) {
		// whoever sees a channel closed must be able to see the change
		for _, x := range ws {
			if vnd.IsClosed(x.ch) {
				vnd.Assert(t.Revision(d.db.ReadTxn()) > revS, "C06."+x.name+".closed-before-visible")
			}
		}
	})
	// KEYFAM=1: keys of the later writes and of the write-transaction queries are "a" + one
	// symbolic byte in '4'..'7' (next to / among the children of a PRESET node)
	famKey := func(tag string) []byte {
		if vnd.Param("KEYFAM", 0) == 1 {
			b := vnd.Byte(tag + ".b")
			vnd.Assume(vnd.And(b >= '4', b <= '7'))
			return []byte{'a', b}
		}
		return vnd.Bytes(tag, L)
	}
	for i := 0; i < N; i++ {
		k := famKey("k")
		op := vnd.IntRange("op", 0, 2)
		if vnd.Param("NOMOVE", 0) == 1 && op == 1 {
			vnd.Assume(false) // menu without the insert that moves the object to other index keys
		}
		switch op {
		case 0:
			t.Insert(w, &vobj{id: k, tags: [][]byte{{'t'}}, pfx: []byte{0x10}, plen: 4, val: uint64(i)})
		case 1:
			t.Insert(w, &vobj{id: k, tags: [][]byte{{'v'}}, pfx: []byte{0x20}, plen: 4, val: uint64(i)})
		case 2:
			t.Delete(w, &vobj{id: k})
		}
		if i == 0 && vnd.Param("WTXNQ", 0) == 1 {
			// queries made through the write transaction itself, after its first write:
			// their channels guard the result as the transaction saw it at that point
			// (a later write of the same transaction that changes it must close them
			// when the transaction commits)
			wq := famKey("wq")
			addW := func(name string, ch <-chan struct{}, result func(txn ReadTxn) []obsItem) {
				vnd.Assert(!vnd.IsClosed(ch), "C06."+name+".open-when-handed-out")
				ws = append(ws, &c06watch{name: name, ch: ch, result: result, before: result(w)})
			}
			// one query kind per path: iterator-style queries freeze the index
			// (they bump the radix transaction id), which would mask what a lone
			// point query leaves behind
			var ch <-chan struct{}
			switch vnd.IntRange("wqkind", 0, 6) {
			case 0:
				_, _, ch, _ = t.GetWatch(w, vIDIndex.Query(wq))
				addW("wtxn-get", ch, func(txn ReadTxn) []obsItem {
					o, r, ok := t.Get(txn, vIDIndex.Query(wq))
					if !ok {
						return nil
					}
					return []obsItem{{o, r}}
				})
			case 1:
				_, ch = t.ListWatch(w, vIDIndex.Query(wq))
				addW("wtxn-list", ch, func(txn ReadTxn) []obsItem { return seqItems(t.List(txn, vIDIndex.Query(wq))) })
			case 2:
				_, ch = t.ListWatch(w, vTagsIndex.Query(qtag))
				addW("wtxn-list-tags", ch, func(txn ReadTxn) []obsItem { return seqItems(t.List(txn, vTagsIndex.Query(qtag))) })
			case 3:
				_, ch = t.PrefixWatch(w, vIDIndex.Query(wq))
				addW("wtxn-prefix", ch, func(txn ReadTxn) []obsItem { return seqItems(t.Prefix(txn, vIDIndex.Query(wq))) })
			case 4:
				_, ch = t.LowerBoundWatch(w, vIDIndex.Query(wq))
				addW("wtxn-lowerbound", ch, func(txn ReadTxn) []obsItem { return seqItems(t.LowerBound(txn, vIDIndex.Query(wq))) })
			case 5:
				_, ch = t.AllWatch(w)
				addW("wtxn-all", ch, func(txn ReadTxn) []obsItem { return seqItems(t.All(txn)) })
			case 6:
				_, ch = t.ListWatch(w, vLPMIndex.Query([]byte{0x10}, 4))
				addW("wtxn-list-lpm", ch, func(txn ReadTxn) []obsItem { return seqItems(t.List(txn, vLPMIndex.Query([]byte{0x10}, 4))) })
			}
			vnd.Cover("C06.wtxn-queries")
		}
	}
	for _, x := range ws {
		vnd.Assert(!vnd.IsClosed(x.ch), "C06."+x.name+".closed-before-commit")
	}
	if vnd.Bool("commit") {
		w.Commit()
		vnd.SetSyncObserver(nil)
		after := d.db.ReadTxn()
		tableChanged := t.Revision(after) != revS
		for _, x := range ws {
			changed := !sameItems(x.before, x.result(after))
			if x.table {
				changed = tableChanged
			}
			if changed {
				vnd.Assert(vnd.IsClosed(x.ch), "C06."+x.name+".missed-change")
				vnd.Cover("C06.changed-and-closed")
			}
			// fresh queries hand out open channels
		}
		_, _, ch, _ := t.GetWatch(after, vIDIndex.Query(qid))
		vnd.Assert(!vnd.IsClosed(ch), "C06.get.fresh-open")
		_, ch = t.AllWatch(after)
		vnd.Assert(!vnd.IsClosed(ch), "C06.all.fresh-open")
		_, ch = t.ListWatch(after, vLPMIndex.Query([]byte{0x10}, 4))
		vnd.Assert(!vnd.IsClosed(ch), "C06.lpm.fresh-open")
		vnd.Cover("C06.committed")
	} else {
		w.Abort()
		vnd.SetSyncObserver(nil)
		for _, x := range ws {
			vnd.Assert(!vnd.IsClosed(x.ch), "C06."+x.name+".closed-by-abort")
		}
		vnd.Cover("C06.aborted")
	}
	vnd.Cover("C06.end")
}
