package statedb

import (
	"github.com/cilium/statedb/internal/vnd"
)

func init() {
	verifEntries["VerifC01Snapshots"] = VerifC01Snapshots
}

type c01queries struct {
	ids  [][]byte // additional point / prefix / lower-bound queries on the primary index
	qid  []byte
	qtag []byte
	qpfx []byte
	qpl  uint16
	qrev uint64
}

// observe runs every query kind through every index of the table on txn.
func c01observe(d *vdb, txn ReadTxn, q *c01queries, withLPM bool) *observation {
	o := &observation{}
	t := d.table
	o.nums = append(o.nums, uint64(t.NumObjects(txn)), t.Revision(txn))
	o.addSeq(t.All(txn))
	o.addSeq(t.Prefix(txn, vIDIndex.Query([]byte{})))
	o.addSeq(t.LowerBound(txn, vTagsIndex.Query([]byte{})))
	o.addGet(t.Get(txn, vIDIndex.Query(q.qid)))
	o.addSeq(t.Prefix(txn, vIDIndex.Query(q.qid)))
	o.addSeq(t.LowerBound(txn, vIDIndex.Query(q.qid)))
	for _, id := range q.ids {
		o.addGet(t.Get(txn, vIDIndex.Query(id)))
		o.addSeq(t.Prefix(txn, vIDIndex.Query(id)))
		o.addSeq(t.LowerBound(txn, vIDIndex.Query(id)))
	}
	o.addSeq(t.List(txn, vTagsIndex.Query(q.qtag)))
	o.addGet(t.Get(txn, vTagsIndex.Query(q.qtag)))
	o.addSeq(t.Prefix(txn, vTagsIndex.Query(q.qtag)))
	o.addSeq(t.LowerBound(txn, vTagsIndex.Query(q.qtag)))
	o.addSeq(t.LowerBound(txn, ByRevision[*vobj](q.qrev)))
	if withLPM {
		o.addSeq(t.Prefix(txn, vLPMIndex.Query([]byte{}, 0)))
		o.addSeq(t.List(txn, vLPMIndex.Query(q.qpfx, q.qpl)))
		o.addGet(t.Get(txn, vLPMIndex.Query(q.qpfx, q.qpl)))
		o.addSeq(t.Prefix(txn, vLPMIndex.Query(q.qpfx, q.qpl)))
		o.addSeq(t.LowerBound(txn, vLPMIndex.Query(q.qpfx, q.qpl)))
	}
	return o
}

type keptSnap struct {
	txn ReadTxn
	obs *observation
}

// VerifC01Snapshots: every retained read transaction keeps answering every
// query exactly as it did when it was taken, whatever happens afterwards
// (pending, committed and aborted writes).
//
// Pre-state: PRE concrete objects that share one tag and one LPM prefix (so
// that multi-object index entries exist), committed. Then N symbolic writes,
// each in its own transaction that is committed or aborted; a snapshot is
// retained (with its observation) before the first and after every write, and
// also while a write is pending. At the end every snapshot is re-queried.
func VerifC01Snapshots() {
	N := vnd.Param("N", 2)
	PRE := vnd.Param("PRE", 2)
	L := vnd.Param("L", 1)
	withLPM := vnd.Param("LPM", 1) == 1
	var d *vdb
	if withLPM {
		d = newVDB(vTagsIndex, vLPMIndex)
	} else {
		d = newVDB(vTagsIndex)
	}
	w := d.db.WriteTxn(d.table)
	// IDSET=1: primary keys that are prefixes of one another ("a","ab","abc"); the
	// symbolic writes then pick their key from this list
	idset := [][]byte{[]byte("a"), []byte("ab"), []byte("abc")}
	if vnd.Param("IDSET", 0) == 2 {
		// "a" holds a value and has exactly one child; "x" keeps it away from the root
		idset = [][]byte{[]byte("a"), []byte("ab"), []byte("x")}
	}
	for i := 0; i < PRE; i++ {
		id := []byte{byte('b' + 2*i)}
		if vnd.Param("IDSET", 0) >= 1 {
			id = idset[i%len(idset)]
		}
		d.table.Insert(w, &vobj{id: id, tags: [][]byte{{'t'}}, pfx: []byte{0x10}, plen: 4, val: uint64(i)})
	}
	w.Commit()

	// Queries: full iteration through every index (so any change of any index
	// entry is observed) plus point queries with concrete keys; SYMQ=1 makes the
	// primary-index query key symbolic as well.
	q := &c01queries{qid: []byte{'b'}, qtag: []byte{'t'}, qpfx: []byte{0x10}, qpl: 4, qrev: 0}
	if vnd.Param("IDSET", 0) >= 1 {
		q.ids = idset
	}
	if vnd.Param("SYMQ", 0) == 1 {
		q.qid = vnd.Bytes("qid", L)
	}

	var kept []keptSnap
	keep := func(txn ReadTxn) {
		kept = append(kept, keptSnap{txn, c01observe(d, txn, q, withLPM)})
	}
	keep(d.db.ReadTxn())
	for i := 0; i < N; i++ {
		w := d.db.WriteTxn(d.table)
		for wi := 0; wi < vnd.Param("WPT", 1); wi++ { // writes per transaction
			var k []byte
			if vnd.Param("IDSET", 0) >= 1 {
				k = idset[vnd.IntRange("kid", 0, len(idset)-1)]
			} else {
				k = vnd.Bytes("k", L)
			}
			switch vnd.IntRange("op", 0, vnd.Param("OPMAX", 2)) {
			case 0: // insert / update keeping the shared tag and prefix
				d.table.Insert(w, &vobj{id: k, tags: [][]byte{{'t'}}, pfx: []byte{0x10}, plen: 4, val: uint64(10 + i)})
			case 2: // insert / update with symbolic (key-changing) index keys
				tg := vnd.Bytes("tag", 1)
				pl := uint16(4 * vnd.IntRange("plen", 0, 2))
				d.table.Insert(w, &vobj{id: k, tags: [][]byte{tg, {'u'}}, pfx: []byte{vnd.Byte("pfx")}, plen: pl, val: uint64(20 + i)})
			case 1:
				d.table.Delete(w, &vobj{id: k})
			}
		}
		// snapshot taken while the write is pending must not see it, and
		// snapshots taken earlier must not change
		pendingSnap := d.db.ReadTxn()
		sameObs(kept[len(kept)-1].obs, c01observe(d, pendingSnap, q, withLPM), "C01.pending-invisible")
		if vnd.Bool("commit") {
			rt := w.Commit()
			keep(rt)
			vnd.Cover("C01.committed")
		} else {
			w.Abort()
			keep(d.db.ReadTxn())
			sameObs(kept[len(kept)-2].obs, kept[len(kept)-1].obs, "C01.abort-invisible")
			vnd.Cover("C01.aborted")
		}
	}
	for _, ks := range kept {
		sameObs(ks.obs, c01observe(d, ks.txn, q, withLPM), "C01.frozen")
	}
	vnd.Cover("C01.end")
}

func init() { verifEntries["VerifC01LpmEntryStep"] = VerifC01LpmEntryStep }

// VerifC01LpmEntryStep: one upsert/delete step on an lpmEntry from an
// arbitrary valid state (tail length 0..4, spare capacity 0..2): the value the
// step started from - which shares its tail's backing array with what earlier
// snapshots hold - must be unchanged, and the result must be the sorted
// insertion/removal.
func VerifC01LpmEntryStep() {
	n := vnd.IntRange("n", 0, 4)
	spare := vnd.IntRange("spare", 0, 2)
	objs := make([]*vobj, 6)
	for i := range objs {
		objs[i] = &vobj{val: uint64(i)}
	}
	e := lpmEntry{used: true, secondary: []byte{1}, head: lpmEntryObject{primary: []byte{10}, obj: object{data: objs[0], revision: 1}}}
	e.tail = make([]lpmEntryObject, n, n+spare)
	for i := 0; i < n; i++ {
		e.tail[i] = lpmEntryObject{primary: []byte{byte(20 + 10*i)}, obj: object{data: objs[i+1], revision: uint64(i + 2)}}
	}
	type rec struct {
		p   byte
		obj any
	}
	snapshot := func(x lpmEntry) []rec {
		var out []rec
		if x.used {
			out = append(out, rec{x.head.primary[0], x.head.obj.data})
			for _, t := range x.tail {
				out = append(out, rec{t.primary[0], t.obj.data})
			}
		}
		return out
	}
	before := snapshot(e)
	old := e // what an earlier snapshot holds (shares the tail's backing array)
	p := vnd.Byte("p")
	nobj := &vobj{val: 99}
	e2 := e
	if vnd.Bool("upsert") {
		added := e2.upsert([]byte{p}, object{data: nobj, revision: 100})
		after := snapshot(e2)
		// model: sorted by primary, replace if equal
		exists := false
		for _, r := range before {
			exists = vnd.Or(exists, r.p == p)
		}
		vnd.Assert(vnd.Iff(added, vnd.Not(exists)), "C01.lpmentry.upsert.added")
		for i := 0; i+1 < len(after); i++ {
			vnd.Assert(after[i].p < after[i+1].p, "C01.lpmentry.upsert.sorted")
		}
		found := false
		for _, r := range after {
			found = vnd.Or(found, vnd.And(r.p == p, r.obj == any(nobj)))
		}
		vnd.Assert(found, "C01.lpmentry.upsert.present")
		vnd.Cover("C01.lpmentry.upsert")
	} else {
		_, removed := e2.delete([]byte{p})
		exists := false
		for _, r := range before {
			exists = vnd.Or(exists, r.p == p)
		}
		vnd.Assert(vnd.Iff(removed, exists), "C01.lpmentry.delete.removed")
		vnd.Cover("C01.lpmentry.delete")
	}
	now := snapshot(old)
	vnd.Assert(len(now) == len(before), "C01.lpmentry.old-length")
	for i := range before {
		vnd.Assert(now[i].p == before[i].p, "C01.lpmentry.old-primary-unchanged")
		vnd.Assert(now[i].obj == before[i].obj, "C01.lpmentry.old-object-unchanged")
	}
	vnd.Cover("C01.lpmentry.end")
}

func init() { verifEntries["VerifC01Reader"] = VerifC01Reader }

// VerifC01Reader: a reader thread takes a snapshot at an arbitrary moment and
// evaluates the full observation twice while a writer thread runs N write
// transactions; the VM may switch between them at every synchronisation
// operation (bounded preemptions). Both observations must be identical, and
// equal to one of the committed states.
func VerifC01Reader() {
	N := vnd.Param("N", 2)
	d := newVDB(vTagsIndex, vLPMIndex)
	w := d.db.WriteTxn(d.table)
	for i := 0; i < 2; i++ {
		d.table.Insert(w, &vobj{id: []byte{byte('b' + 2*i)}, tags: [][]byte{{'t'}}, pfx: []byte{0x10}, plen: 4, val: uint64(i)})
	}
	w.Commit()
	q := &c01queries{qid: []byte{'b'}, qtag: []byte{'t'}, qpfx: []byte{0x10}, qpl: 4}
	var committed []*observation
	committed = append(committed, c01observe(d, d.db.ReadTxn(), q, true))
	done := make(chan struct{})
	vnd.Go(func() {
		defer close(done)
		for i := 0; i < N; i++ {
			w := d.db.WriteTxn(d.table)
			k := []byte{byte('a' + vnd.IntRange("key", 0, 4))}
			if vnd.Bool("insert") {
				d.table.Insert(w, &vobj{id: k, tags: [][]byte{{'t'}}, pfx: []byte{0x10}, plen: 4, val: uint64(10 + i)})
			} else {
				d.table.Delete(w, &vobj{id: k})
			}
			if vnd.Bool("commit") {
				w.Commit()
			} else {
				w.Abort()
			}
		}
	})
	snap := d.db.ReadTxn()
	o1 := c01observe(d, snap, q, true)
	vnd.Yield()
	o2 := c01observe(d, snap, q, true)
	sameObs(o1, o2, "C01.reader.frozen-under-concurrent-writer")
	<-done
	o3 := c01observe(d, snap, q, true)
	sameObs(o1, o3, "C01.reader.frozen-after-writer")
	vnd.Cover("C01.reader.end")
}
