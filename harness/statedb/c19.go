package statedb

import (
	"github.com/cilium/statedb/internal/vnd"
)

func init() {
	verifEntries["VerifC19Init"] = VerifC19Init
}

// VerifC19Init: table initialization state over a symbolic history of
// registering and completing initializers x and y in committed and aborted
// transactions, mixed with ordinary writes.
func VerifC19Init() {
	N := vnd.Param("N", 4)
	d := newVDB()
	t := d.table
	names := []string{"x", "y"}
	// committed model
	registered := [2]bool{} // registered in a committed txn
	done := [2]bool{}       // marked done in a committed txn
	everReg := false
	var doneFn [2]func(WriteTxn)
	var regTxnCommitted [2]bool
	type watcher struct {
		ch          <-chan struct{}
		initialized bool // model state when handed out
	}
	var watchers []watcher

	modelInit := func() bool {
		for i := range names {
			if registered[i] && !done[i] {
				return false
			}
		}
		return true
	}
	checkSnap := func(what string) {
		rt := d.db.ReadTxn()
		init, ch := t.Initialized(rt)
		vnd.Assert(init == modelInit(), "C19."+what+".initialized")
		pend := t.PendingInitializers(rt)
		want := 0
		for i, n := range names {
			if registered[i] && !done[i] {
				want++
				found := false
				for _, p := range pend {
					if p == n {
						found = true
					}
				}
				vnd.Assert(found, "C19."+what+".pending-missing")
			}
		}
		vnd.Assert(len(pend) == want, "C19."+what+".pending-count")
		if !init {
			vnd.Assert(!vnd.IsClosed(ch), "C19."+what+".watch-open-while-uninitialized")
			watchers = append(watchers, watcher{ch, false})
		} else {
			vnd.Assert(vnd.IsClosed(ch), "C19."+what+".watch-closed-when-initialized")
		}
		// retained channels close only when the table becomes initialized,
		// and are closed once it has
		for i := range watchers {
			w := &watchers[i]
			if modelInit() {
				w.initialized = true
			}
			if vnd.IsClosed(w.ch) {
				vnd.Assert(w.initialized, "C19."+what+".watch-closed-early")
			}
			if w.initialized {
				vnd.Assert(vnd.IsClosed(w.ch), "C19."+what+".watch-not-closed")
			}
		}
	}
	checkSnap("start")
	for i := 0; i < N; i++ {
		w := d.db.WriteTxn(t)
		// up to two actions in one transaction
		var reg, mark [2]bool
		for a := 0; a < vnd.Param("ACTS", 2); a++ {
			switch vnd.IntRange("act", 0, 3) {
			case 0: // register x or y (only once per name: a second registration panics by contract)
				j := vnd.IntRange("name", 0, 1)
				if registered[j] || reg[j] || doneFn[j] != nil {
					vnd.Assume(false)
				}
				doneFn[j] = t.RegisterInitializer(w, names[j])
				reg[j] = true
			case 1: // mark x or y done (possibly again)
				j := vnd.IntRange("name", 0, 1)
				if doneFn[j] == nil || !(regTxnCommitted[j] || reg[j]) {
					vnd.Assume(false)
				}
				if vnd.Known("KF-markdone-once", true) {
					vnd.Assume(false)
				}
				doneFn[j](w)
				mark[j] = true
			case 2: // ordinary insert
				t.Insert(w, &vobj{id: []byte{byte(i)}})
			case 3: // nothing
			}
		}
		if vnd.Bool("commit") {
			w.Commit()
			for j := range names {
				if reg[j] {
					registered[j] = true
					regTxnCommitted[j] = true
					everReg = true
				}
				if mark[j] && (registered[j]) {
					done[j] = true
				}
			}
			vnd.Cover("C19.committed")
		} else {
			w.Abort()
			for j := range names {
				if reg[j] {
					// registration aborted: the done-func of an aborted registration is dropped
					doneFn[j] = nil
				}
			}
			vnd.Cover("C19.aborted")
		}
		checkSnap("step")
	}
	_ = everReg
	if modelInit() && (registered[0] || registered[1]) {
		vnd.Cover("C19.became-initialized")
	}
	vnd.Cover("C19.end")
}

func init() { verifEntries["VerifC19Signal"] = VerifC19Signal }

// VerifC19Signal: the initialization watch channel closes only after a snapshot
// showing the table initialized can be obtained - checked by the VM's sync
// observer at every synchronisation operation inside the committing transaction.
func VerifC19Signal() {
	d := newVDB()
	t := d.table
	w := d.db.WriteTxn(t)
	doneX := t.RegisterInitializer(w, "x")
	var doneY func(WriteTxn)
	two := vnd.Bool("two")
	if two {
		doneY = t.RegisterInitializer(w, "y")
	}
	w.Commit()
	init, ch := t.Initialized(d.db.ReadTxn())
	vnd.Assert(!init && !vnd.IsClosed(ch), "C19.signal.uninitialized")
	vnd.SetSyncObserver(func(point string) {
		if vnd.IsClosed(ch) {
			ok, _ := t.Initialized(d.db.ReadTxn())
			vnd.Assert(ok, "C19.signal.closed-before-visible")
		}
	})
	w = d.db.WriteTxn(t)
	doneX(w)
	yMarked := false
	if two && vnd.Bool("both-in-one") {
		doneY(w)
		yMarked = true
	}
	commit := vnd.Bool("commit")
	if commit {
		w.Commit()
		if yMarked {
			doneY = nil
		}
	} else {
		w.Abort()
		vnd.Assert(!vnd.IsClosed(ch), "C19.signal.closed-by-abort")
		w = d.db.WriteTxn(t)
		doneX(w)
		w.Commit()
	}
	if two && doneY != nil {
		vnd.Assert(!vnd.IsClosed(ch), "C19.signal.closed-with-pending-initializer")
		w = d.db.WriteTxn(t)
		doneY(w)
		w.Commit()
	}
	vnd.SetSyncObserver(nil)
	ok, _ := t.Initialized(d.db.ReadTxn())
	vnd.Assert(ok && vnd.IsClosed(ch), "C19.signal.initialized-and-signalled")
	vnd.Cover("C19.signal.end")
}
