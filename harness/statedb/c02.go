package statedb

import (
	"github.com/cilium/statedb/internal/vnd"
)

func init() {
	verifEntries["VerifC02Atomic"] = VerifC02Atomic
}

// VerifC02Atomic: a write transaction over two tables inserts/deletes the
// same symbolic keys in both; an observer - called by the VM at every
// synchronisation operation from WriteTxn's return to the end of Commit/Abort
// - takes a snapshot "as another goroutine would" and must see either the
// complete old state or the complete new state of both tables. After Abort the
// full observation (contents through every index, revisions, counts, retained
// deletions, watch channels, behaviour of an identical follow-up transaction)
// equals the one before.
func VerifC02Atomic() {
	N := vnd.Param("N", 2)
	L := vnd.Param("L", 1)
	db := New(WithMetrics(&NopMetrics{}))
	ta, err := NewTable[*vobj](db, "a", vIDIndex, vTagsIndex, vLPMIndex)
	if err != nil {
		panic(err)
	}
	tb, err := NewTable[*vobj](db, "b", vIDIndex)
	if err != nil {
		panic(err)
	}
	da := &vdb{db, ta}
	// pre-state: one object in each table, and a change iterator on A so that
	// deletions are retained in the graveyard
	w := db.WriteTxn(ta, tb)
	ta.Insert(w, &vobj{id: []byte("p"), tags: [][]byte{{'t'}}, pfx: []byte{0x10}, plen: 4})
	ta.Insert(w, &vobj{id: []byte("r"), tags: [][]byte{{'t'}}, pfx: []byte{0x10}, plen: 4})
	ta.Insert(w, &vobj{id: []byte("s"), tags: [][]byte{{'t'}}, pfx: []byte{0x10}, plen: 4})
	tb.Insert(w, &vobj{id: []byte("p")})
	tb.Insert(w, &vobj{id: []byte("r")})
	tb.Insert(w, &vobj{id: []byte("s")})
	it, _ := ta.Changes(w)
	doneI0 := ta.RegisterInitializer(w, "i0") // a committed, still pending initializer
	_ = doneI0
	w.Commit()
	seq, _ := it.Next(db.ReadTxn())
	for range seq {
	}

	q := &c01queries{qid: []byte("p"), qtag: []byte("t"), qpfx: []byte{0x10}, qpl: 4}
	observe := func(txn ReadTxn) *observation {
		o := c01observe(da, txn, q, true)
		o.addSeq(tb.All(txn))
		o.addGet(tb.Get(txn, vIDIndex.Query([]byte("p"))))
		o.addSeq(tb.LowerBound(txn, ByRevision[*vobj](0)))
		o.nums = append(o.nums, uint64(tb.NumObjects(txn)), tb.Revision(txn))
		o.nums = append(o.nums, uint64(ta.(*genTable[*vobj]).numDeletedObjects(txn)))
		o.nums = append(o.nums, uint64(len(ta.PendingInitializers(txn))), uint64(len(tb.PendingInitializers(txn))))
		return o
	}
	before := db.ReadTxn()
	obsBefore := observe(before)
	revA0, revB0 := ta.Revision(before), tb.Revision(before)
	_, _, watchGet, _ := ta.GetWatch(before, vIDIndex.Query([]byte("p")))
	_, watchAll := ta.AllWatch(before)
	_, watchB := tb.AllWatch(before)

	w = db.WriteTxn(ta, tb)
	// the observer: every snapshot is all-old or all-new, in both tables
	committing := false
	var revA1, revB1 uint64
	sawOld, sawNew := 0, 0
	vnd.SetSyncObserver(func(point string) {
		rt := db.ReadTxn()
		ra, rb := ta.Revision(rt), tb.Revision(rt)
		if !committing {
			vnd.Assert(rt.getTableEntry(tb).deleteTrackers.Len() == 0, "C02.delete-tracker-visible-before-commit")
			vnd.Assert(ra == revA0 && rb == revB0, "C02.invisible-before-commit")
			sameObs(obsBefore, observe(rt), "C02.invisible-before-commit.obs")
			vnd.Assert(!vnd.IsClosed(watchGet) && !vnd.IsClosed(watchAll) && !vnd.IsClosed(watchB), "C06.no-wakeup-before-commit")
			return
		}
		old := ra == revA0 && rb == revB0
		nw := ra == revA1 && rb == revB1
		vnd.Assert(old || nw, "C02.torn-snapshot")
		if old && !nw {
			sawOld++
			sameObs(obsBefore, observe(rt), "C02.old-snapshot-complete")
			// a channel must not be closed while the change is not yet visible
			vnd.Assert(!vnd.IsClosed(watchGet) && !vnd.IsClosed(watchAll) && !vnd.IsClosed(watchB), "C06.wakeup-before-visible")
		} else if nw {
			sawNew++
			vnd.Assert(ta.NumObjects(rt) == tb.NumObjects(rt), "C02.new-snapshot-cross-table")
		}
	})
	keys := map[string]bool{"p": true}
	_ = keys
	for i := 0; i < N; i++ {
		k := vnd.Bytes("k", L)
		if vnd.Bool("insert") {
			ta.Insert(w, &vobj{id: k, tags: [][]byte{{'t'}}, pfx: []byte{0x10}, plen: 4, val: uint64(i)})
			tb.Insert(w, &vobj{id: k, val: uint64(i)})
		} else {
			ta.Delete(w, &vobj{id: k})
			tb.Delete(w, &vobj{id: k})
		}
	}
	// optionally the transaction registers another initializer / completes the pending one
	switch vnd.IntRange("init", 0, 2) {
	case 1:
		ta.RegisterInitializer(w, "i1")
		vnd.Cover("C02.initializer-in-txn")
	case 2:
		doneI0(w)
	}
	// optionally the transaction also creates a change iterator on B
	var it2 ChangeIterator[*vobj]
	if vnd.Bool("changes") {
		it2, _ = tb.Changes(w)
		vnd.Cover("C02.changes-in-txn")
	}
	// NEWTABLE=1: optionally a table is registered while the transaction is open
	// (Commit then merges into a root that has grown meanwhile); a snapshot taken
	// after the registration must stay frozen as well
	var mid ReadTxn
	var obsMid *observation
	if vnd.Param("NEWTABLE", 0) == 1 && vnd.Bool("newtable") {
		_, err := NewTable[*vobj](db, "late", vIDIndex)
		vnd.Assert(err == nil, "C02.harness.newtable")
		mid = db.ReadTxn()
		obsMid = observe(mid)
		vnd.Cover("C02.table-registered-meanwhile")
	}
	revA1, revB1 = ta.Revision(w), tb.Revision(w)
	changedA, changedB := revA1 != revA0, revB1 != revB0
	nA, nB := ta.NumObjects(w), tb.NumObjects(w)
	vnd.Assert(nA == nB, "C02.harness-sanity")
	if vnd.Bool("commit") {
		committing = true
		rt := w.Commit()
		vnd.SetSyncObserver(nil)
		if mid != nil {
			sameObs(obsMid, observe(mid), "C02.snapshot-taken-before-commit-changed")
		}
		vnd.Assert(ta.Revision(rt) == revA1 && tb.Revision(rt) == revB1, "C02.commit-snapshot-has-writes")
		vnd.Assert(ta.NumObjects(rt) == nA && tb.NumObjects(rt) == nB, "C02.commit-snapshot-counts")
		fresh := db.ReadTxn()
		vnd.Assert(ta.Revision(fresh) == revA1 && tb.Revision(fresh) == revB1, "C02.visible-after-commit")
		// table-wide watches close no later than Commit's return when the table changed
		vnd.Assert(vnd.Implies(changedA, vnd.IsClosed(watchAll)), "C06.all-watch-closed-at-commit")
		vnd.Assert(vnd.Implies(changedB, vnd.IsClosed(watchB)), "C06.all-watch-closed-at-commit.b")
		if changedA && changedB && vnd.InVM() {
			vnd.Assert(sawOld > 0 && sawNew > 0, "C02.observer-saw-both-states")
			vnd.Cover("C02.observer-saw-both-states")
		}
		vnd.Cover("C02.committed")
	} else {
		w.Abort()
		vnd.SetSyncObserver(nil)
		after := db.ReadTxn()
		sameObs(obsBefore, observe(after), "C02.abort-leaves-no-trace")
		vnd.Assert(!vnd.IsClosed(watchGet) && !vnd.IsClosed(watchAll) && !vnd.IsClosed(watchB), "C06.no-wakeup-on-abort")
		// the change iterator has nothing to deliver
		seq, watch := it.Next(after)
		n := 0
		for range seq {
			n++
		}
		vnd.Assert(n == 0 && !vnd.IsClosed(watch), "C02.abort-invisible-to-change-iterator")
		// an identical follow-up transaction behaves as the aborted one did
		w2 := db.WriteTxn(ta, tb)
		vnd.Assert(ta.Revision(w2) == revA0 && tb.Revision(w2) == revB0, "C02.abort-follow-up-revision")
		// no delete tracker of the aborted transaction is left behind: a deletion
		// in B (which has no committed iterator) is not retained
		tb.Delete(w2, &vobj{id: []byte("p")})
		vnd.Assert(tb.(*genTable[*vobj]).numDeletedObjects(w2) == 0, "C02.abort-left-delete-tracker")
		w2.Abort()
		vnd.Cover("C02.aborted")
	}
	vnd.Assert(vnd.ObserverCalls() > 0 || !vnd.InVM(), "C02.observer-ran")
	it.Close()
	if it2 != nil {
		it2.Close()
	}
	vnd.Cover("C02.end")
}
