package statedb

import (
	"bytes"

	"github.com/cilium/statedb/internal/vnd"
	"github.com/cilium/statedb/lpm"
)

func init() { verifEntries["VerifC04LPM"] = VerifC04LPM }

// lpmKeysOf: the (masked data byte, prefix length) keys an object is filed under.
type lkey struct {
	b  byte
	pl int
}

func lpmKeysOf(o *vobj) []lkey {
	var out []lkey
	if o.pfx != nil {
		out = append(out, lkey{o.pfx[0], int(o.plen)})
	}
	if o.pfx2 != nil {
		out = append(out, lkey{o.pfx2[0], int(o.pln2)})
	}
	return out
}

func maskOf(pl int) byte { return byte(0xff) << (8 - uint(pl)) }

// covers8: prefix (b,pl) covers the 8-bit address q.
func covers8(k lkey, q byte) bool { return (k.b^q)&maskOf(k.pl) == 0 }

// VerifC04LPM: a non-unique LPM index at table level. Objects carry 0..2
// prefixes over 8-bit data (lengths from {0,4,8}; the two may mask to the same
// key); after N symbolic upserts/deletes, Get/List of a full-length key return
// exactly the objects filed under the longest matching prefix (ordered by
// primary key) and Prefix(q) exactly the objects with a prefix covered by q.
func VerifC04LPM() {
	N := vnd.Param("N", 2)
	d := newVDB(vLPMIndex)
	t := d.table
	m := &imodel{byID: map[*vobj]int{}}
	w := d.db.WriteTxn(t)
	symPfx := func(tag string) ([]byte, uint16) {
		pl := 4 * vnd.IntRange(tag+".plen", vnd.Param("PLMIN", 1), 2)
		return []byte{vnd.Byte(tag)}, uint16(pl)
	}
	for i := 0; i < vnd.Param("PRE", 0); i++ {
		o := &vobj{id: []byte{byte('a' + i)}, pfx: []byte{0x10}, plen: 4, val: uint64(50 + i)}
		t.Insert(w, o)
		m.put(o)
	}
	for i := 0; i < N; i++ {
		id := []byte{byte('a' + vnd.IntRange("id", 0, vnd.Param("IDMAX", 1)))}
		// OPSEQ=1: upserts followed by one final delete (fewer paths)
		isUpsert := false
		if vnd.Param("OPSEQ", 0) == 1 {
			isUpsert = i < N-1
		} else {
			isUpsert = vnd.IntRange("op", 0, 2) < 2
		}
		if isUpsert {
			o := &vobj{id: id, val: uint64(i)}
			np := vnd.IntRange("npfx", vnd.Param("NPMIN", 0), 2)
			if np >= 1 {
				o.pfx, o.plen = symPfx("p1")
			}
			if np == 2 {
				o.pfx2, o.pln2 = symPfx("p2")
				vnd.Cover("C04.lpm.two-prefixes")
			}
			t.Insert(w, o)
			m.put(o)
		} else {
			t.Delete(w, &vobj{id: id})
			m.del(id)
		}
	}
	q := vnd.Byte("q")
	var txn ReadTxn = w
	if vnd.Bool("snapshot") {
		txn = w.Commit()
	} else {
		defer w.Abort()
	}
	// longest matching prefix length over current objects
	best := -1
	for _, r := range m.recs {
		for _, k := range lpmKeysOf(r.obj) {
			c := vnd.And(r.present, covers8(k, q))
			best = vnd.IteInt(vnd.And(c, k.pl > best), k.pl, best)
		}
	}
	underBest := func(o *vobj) bool {
		any := false
		for _, k := range lpmKeysOf(o) {
			any = vnd.Or(any, vnd.And(covers8(k, q), k.pl == best))
		}
		return any
	}
	// List(full-length q): exactly the objects under the longest matching prefix, by primary key
	var ids [][]byte
	var objs []*vobj
	for o := range t.List(txn, vLPMIndex.Query([]byte{q}, 8)) {
		ids = append(ids, o.id)
		objs = append(objs, o)
	}
	for j := 0; j+1 < len(ids); j++ {
		vnd.Assert(bytes.Compare(ids[j], ids[j+1]) < 0, "C04.lpm.list.order")
	}
	for _, o := range objs {
		ri, ok := m.byID[o]
		vnd.Assert(ok, "C04.lpm.list.unknown")
		if ok {
			vnd.Assert(vnd.And(m.recs[ri].present, underBest(o)), "C04.lpm.list.member")
		}
	}
	vnd.Assert(len(objs) == m.count(underBest), "C04.lpm.list.count")
	// Get: found iff something matches; the object is one of them
	o, _, found := t.Get(txn, vLPMIndex.Query([]byte{q}, 8))
	vnd.Assert(vnd.Iff(found, best >= 0), "C04.lpm.get.found")
	if found {
		ri := m.byID[o]
		vnd.Assert(vnd.And(m.recs[ri].present, underBest(o)), "C04.lpm.get.member")
	}
	// Prefix(q/ql): objects with a prefix covered by the query prefix, each once per stored prefix
	ql := 4 * vnd.IntRange("ql", 0, 2)
	qk := lkey{q, ql}
	coveredBy := func(o *vobj) bool {
		any := false
		for _, k := range lpmKeysOf(o) {
			any = vnd.Or(any, vnd.And(k.pl >= ql, (k.b^qk.b)&maskOf(ql) == 0))
		}
		return any
	}
	seen := map[*vobj]bool{}
	n := 0
	for o := range t.Prefix(txn, vLPMIndex.Query([]byte{q}, lpm.PrefixLen(ql))) {
		ri, ok := m.byID[o]
		vnd.Assert(ok, "C04.lpm.prefix.unknown")
		if ok {
			vnd.Assert(vnd.And(m.recs[ri].present, coveredBy(o)), "C04.lpm.prefix.member")
		}
		if !seen[o] {
			seen[o] = true
			n++
		}
	}
	vnd.Assert(n == m.count(coveredBy), "C04.lpm.prefix.count")
	if vnd.Param("LOWERBOUND", 0) == 1 {
		// LowerBound(q/ql): every (stored prefix, object) pair whose prefix is not below the query in
		// (masked bits, prefix length) order, ascending in that order, objects of one prefix by primary key
		qb := q & maskOf(ql)
		notBelow := func(k lkey) bool {
			kb := k.b & maskOf(k.pl)
			return vnd.Or(kb > qb, vnd.And(kb == qb, k.pl >= ql))
		}
		it, _ := txn.mustIndexReadTxn(t, t.indexPos("lpm")).lowerBound(lpm.EncodeLPMKey([]byte{q}, lpm.PrefixLen(ql)))
		var lkeys []lkey
		var lobjs []*vobj
		it.All(func(key []byte, ob object) bool {
			data, pl := lpm.DecodeLPMKey(key)
			b := byte(0)
			if len(data) > 0 {
				b = data[0]
			}
			lkeys = append(lkeys, lkey{b, int(pl)})
			lobjs = append(lobjs, ob.data.(*vobj))
			return true
		})
		pairs := 0
		for j, o := range lobjs {
			ri, ok := m.byID[o]
			vnd.Assert(ok, "C04.lpm.lowerbound.unknown")
			if !ok {
				continue
			}
			vnd.Assert(m.recs[ri].present, "C04.lpm.lowerbound.stale")
			vnd.Assert(notBelow(lkeys[j]), "C04.lpm.lowerbound.below-query")
			// the yielded key is one of the object's stored (masked) prefixes
			mine := false
			for _, k := range lpmKeysOf(o) {
				mine = vnd.Or(mine, vnd.And(k.pl == lkeys[j].pl, k.b&maskOf(k.pl) == lkeys[j].b))
			}
			vnd.Assert(mine, "C04.lpm.lowerbound.key")
			if j > 0 {
				pb, cb := lkeys[j-1].b, lkeys[j].b
				same := vnd.And(pb == cb, lkeys[j-1].pl == lkeys[j].pl)
				asc := vnd.Or(pb < cb, vnd.And(pb == cb, lkeys[j-1].pl < lkeys[j].pl))
				vnd.Assert(vnd.Or(asc, vnd.And(same, bytes.Compare(lobjs[j-1].id, o.id) < 0)), "C04.lpm.lowerbound.order")
			}
			pairs++
		}
		// expected number of pairs: distinct stored keys per current object that are not below the query
		want := 0
		for _, r := range m.recs {
			ks := lpmKeysOf(r.obj)
			for a, k := range ks {
				dup := false
				for _, k2 := range ks[:a] {
					dup = vnd.Or(dup, vnd.And(k2.pl == k.pl, (k2.b^k.b)&maskOf(k.pl) == 0))
				}
				want += vnd.IteInt(vnd.And(r.present, vnd.And(notBelow(k), vnd.Not(dup))), 1, 0)
			}
		}
		vnd.Assert(pairs == want, "C04.lpm.lowerbound.count")
		vnd.Cover("C04.lpm.lowerbound")
	}
	vnd.Cover("C04.lpm.end")
}
