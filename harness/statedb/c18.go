package statedb

import (
	"bytes"

	"github.com/cilium/statedb/index"
	"github.com/cilium/statedb/internal/vnd"
	"github.com/cilium/statedb/lpm"
)

func init() {
	verifEntries["VerifC18NonUnique"] = VerifC18NonUnique
	verifEntries["VerifC18Ints"] = VerifC18Ints
	verifEntries["VerifC18LPM"] = VerifC18LPM
	verifEntries["VerifC18Strings"] = VerifC18Strings
	verifEntries["VerifC18Long"] = VerifC18Long
}

// longKey returns a key of symbolic length lo..hi whose first and last bytes
// are symbolic and whose other bytes are 'x' (so the encoded length straddles
// the point where the 2-byte primary-length suffix needs its high byte).
func longKey(tag string, lo, hi int) []byte {
	n := vnd.IntRange(tag+".len", lo, hi)
	k := make([]byte, n)
	for i := range k {
		k[i] = 'x'
	}
	k[0] = vnd.Byte(tag + ".first")
	k[n-1] = vnd.Byte(tag + ".last")
	return k
}

// VerifC18Long: the composite key for primaries whose encoded length is around
// 256 bytes (the length suffix is two bytes wide).
func VerifC18Long() {
	LO, HI := vnd.Param("LO", 254), vnd.Param("HI", 257)
	s1, s2 := vnd.Bytes("s1", 1), vnd.Bytes("s2", 1)
	p1, p2 := longKey("p1", LO, HI), longKey("p2", LO, HI)
	k1 := encodeNonUniqueKey(p1, s1)
	k2 := encodeNonUniqueKey(p2, s2)
	cs, cp := bytes.Compare(s1, s2), bytes.Compare(p1, p2)
	want := vnd.IteInt(cs != 0, cs, cp)
	vnd.Assert(sign(bytes.Compare(k1, k2)) == want, "C18.long.order")
	vnd.Assert(vnd.Iff(bytes.Equal(k1, k2), vnd.And(bytes.Equal(s1, s2), bytes.Equal(p1, p2))), "C18.long.injective")
	n := nonUniqueKey(k1)
	vnd.Assert(bytes.Equal(n.encodedSecondary(), encodeNonUniqueBytes(s1)), "C18.long.split.secondary")
	vnd.Assert(bytes.Equal(n.encodedPrimary(), encodeNonUniqueBytes(p1)), "C18.long.split.primary")
	vnd.Assert(n.secondaryLen() == encodedLength(s1), "C18.long.seclen")
	vnd.Assert(n.primaryLen() == encodedLength(p1), "C18.long.prilen")
	if encodedLength(p1) >= 256 {
		vnd.Cover("C18.long.high-byte")
	}
	if encodedLength(p1) < 256 {
		vnd.Cover("C18.long.low-byte-only")
	}
	vnd.Cover("C18.long.end")
}

func sign(x int) int {
	return vnd.IteInt(x < 0, -1, vnd.IteInt(x > 0, 1, 0))
}

// VerifC18NonUnique: the composite key of a non-unique index entry is an
// injective, order-preserving encoding of (secondary, primary), and the two
// parts can be separated again.
func VerifC18NonUnique() {
	L := vnd.Param("L", 2)
	s1, s2 := vnd.Bytes("s1", L), vnd.Bytes("s2", L)
	var p1, p2 []byte
	if vnd.Param("PEMPTY", 0) == 1 {
		// longer secondaries with both primaries empty (keeps the path count down)
		p1, p2 = []byte{}, []byte{}
	} else {
		p1, p2 = vnd.Bytes("p1", L), vnd.Bytes("p2", L)
	}
	k1 := encodeNonUniqueKey(p1, s1)
	k2 := encodeNonUniqueKey(p2, s2)

	cs, cp := bytes.Compare(s1, s2), bytes.Compare(p1, p2)
	want := vnd.IteInt(cs != 0, cs, cp)
	vnd.Assert(sign(bytes.Compare(k1, k2)) == want, "C18.order")
	vnd.Assert(vnd.Iff(bytes.Equal(k1, k2), vnd.And(bytes.Equal(s1, s2), bytes.Equal(p1, p2))), "C18.injective")

	es1, ep1 := encodeNonUniqueBytes(s1), encodeNonUniqueBytes(p1)
	n := nonUniqueKey(k1)
	vnd.Assert(bytes.Equal(n.encodedSecondary(), es1), "C18.split.secondary")
	vnd.Assert(bytes.Equal(n.encodedPrimary(), ep1), "C18.split.primary")
	vnd.Assert(n.secondaryLen() == encodedLength(s1), "C18.seclen")
	vnd.Assert(n.primaryLen() == encodedLength(p1), "C18.prilen")
	vnd.Assert(len(es1) == encodedLength(s1), "C18.enclen")
	vnd.Assert(bytes.IndexByte(es1, 0) < 0, "C18.nozero")
	// the encoding of the parts is itself injective and order preserving
	es2 := encodeNonUniqueBytes(s2)
	vnd.Assert(sign(bytes.Compare(es1, es2)) == cs, "C18.part.order")
	if len(es1) != len(s1) {
		vnd.Cover("C18.escape-used")
	}
	if len(s1) < len(s2) && len(p1) > 0 {
		vnd.Cover("C18.shorter-secondary-with-primary")
	}
	vnd.Cover("C18.nonunique.end")
}

func cmpU64(a, b uint64) int { return vnd.IteInt(a < b, -1, vnd.IteInt(a > b, 1, 0)) }

// VerifC18Ints: fixed-width integer and bool encoders.
func VerifC18Ints() {
	a, b := vnd.Uint64("a"), vnd.Uint64("b")
	vnd.Assert(sign(bytes.Compare(index.Uint64(a), index.Uint64(b))) == cmpU64(a, b), "C18.u64.order")
	vnd.Assert(vnd.Iff(bytes.Equal(index.Int64(int64(a)), index.Int64(int64(b))), a == b), "C18.i64.inj")
	a32, b32 := vnd.Uint32("a32"), vnd.Uint32("b32")
	vnd.Assert(sign(bytes.Compare(index.Uint32(a32), index.Uint32(b32))) == cmpU64(uint64(a32), uint64(b32)), "C18.u32.order")
	vnd.Assert(vnd.Iff(bytes.Equal(index.Int32(int32(a32)), index.Int32(int32(b32))), a32 == b32), "C18.i32.inj")
	vnd.Assert(vnd.Iff(bytes.Equal(index.Int(int(int32(a32))), index.Int(int(int32(b32)))), a32 == b32), "C18.int.inj")
	a16, b16 := vnd.Uint16("a16"), vnd.Uint16("b16")
	vnd.Assert(sign(bytes.Compare(index.Uint16(a16), index.Uint16(b16))) == cmpU64(uint64(a16), uint64(b16)), "C18.u16.order")
	vnd.Assert(vnd.Iff(bytes.Equal(index.Int16(int16(a16)), index.Int16(int16(b16))), a16 == b16), "C18.i16.inj")
	x, y := vnd.Bool("x"), vnd.Bool("y")
	vnd.Assert(vnd.Iff(bytes.Equal(index.Bool(x), index.Bool(y)), x == y), "C18.bool.inj")
	vnd.Assert(len(index.Uint64(a)) == 8, "C18.u64.len")
	vnd.Cover("C18.ints.end")
}

// VerifC18Strings: string encoder.
func VerifC18Strings() {
	L := vnd.Param("L", 3)
	s, t := vnd.String("s", L), vnd.String("t", L)
	ks, kt := index.String(s), index.String(t)
	vnd.Assert(vnd.Iff(bytes.Equal(ks, kt), s == t), "C18.string.inj")
	vnd.Assert(sign(bytes.Compare(ks, kt)) == vnd.IteInt(s < t, -1, vnd.IteInt(s == t, 0, 1)), "C18.string.order")
	vnd.Assert(len(ks) == len(s), "C18.string.len")
	vnd.Cover("C18.strings.end")
}

// VerifC18LPM: LPM keys round-trip with the data masked to the prefix length.
func VerifC18LPM() {
	L := vnd.Param("LPMBYTES", 3)
	n := vnd.IntRange("n", 0, L)
	d := vnd.BytesN("d", n)
	pl := vnd.IntRange("plen", 0, 8*n)
	k := lpm.EncodeLPMKey(d, lpm.PrefixLen(pl))
	d2, pl2 := lpm.DecodeLPMKey(k)
	vnd.Assert(int(pl2) == pl, "C18.lpm.plen")
	nb := (pl + 7) / 8
	vnd.Assert(len(d2) == nb, "C18.lpm.datalen")
	for i := 0; i < nb; i++ {
		want := d[i]
		if i == nb-1 && pl%8 != 0 {
			want = d[i] & (0xff << (8 - uint(pl%8)))
			vnd.Cover("C18.lpm.partial-byte")
		}
		vnd.Assert(d2[i] == want, "C18.lpm.masked")
	}
	// two keys are equal iff masked data and length are equal
	e := vnd.BytesN("e", n)
	k2 := lpm.EncodeLPMKey(e, lpm.PrefixLen(pl))
	same := true
	for i := 0; i < nb; i++ {
		mask := byte(0xff)
		if i == nb-1 && pl%8 != 0 {
			mask = 0xff << (8 - uint(pl%8))
		}
		same = vnd.And(same, d[i]&mask == e[i]&mask)
	}
	vnd.Assert(vnd.Iff(bytes.Equal(k, k2), same), "C18.lpm.inj")
	vnd.Cover("C18.lpm.end")
}
