package statedb

import (
	"github.com/cilium/statedb/internal/vnd"
)

func init() {
	verifEntries["VerifC08Graveyard"] = VerifC08Graveyard
}

// c08observe: everything a snapshot shows of the table (objects by identity with
// revisions through the primary and the revision index, counts, table revision,
// number of retained deleted objects).
func c08observe(t RWTable[*vobj], gt *genTable[*vobj], txn ReadTxn) *observation {
	o := &observation{}
	o.addSeq(t.All(txn))
	o.addSeq(t.LowerBound(txn, ByRevision[*vobj](0)))
	for _, k := range []string{"a", "b"} {
		ob, rev, ok := t.Get(txn, vIDIndex.Query([]byte(k)))
		o.addGet(ob, rev, ok)
	}
	o.nums = append(o.nums, uint64(t.NumObjects(txn)), t.Revision(txn), uint64(gt.numDeletedObjects(txn)))
	return o
}

// VerifC08Graveyard: the real graveyard worker runs as a VM thread (virtual
// time, rate limiter stubbed); a writer deletes / re-inserts keys, up to two
// change iterators consume at symbolic points or are closed. With preemption
// at lock acquisitions the collector can be paused between its lock-free scan
// and its write transaction while the table changes.
func VerifC08Graveyard() {
	N := vnd.Param("N", 3)
	NIT := vnd.Param("NIT", 1)
	d := newVDB()
	t := d.table
	gt := t.(*genTable[*vobj])
	d.db.Start()
	const tick = int64(2_000_000_000) // > default GC rate-limit interval

	committed := newDBModel()
	type itstate struct {
		it   ChangeIterator[*vobj]
		s    *c07state
		open bool
		// atRev: committed table revision up to which the iterator has consumed everything
		// (set by a complete catch-up); it is "caught up" while atRev == committed.rev
		atRev uint64
		full  bool
	}
	var its []*itstate
	mkIters := func() {
		for i := 0; i < NIT; i++ {
			w := d.db.WriteTxn(t)
			it, err := t.Changes(w)
			vnd.Assert(err == nil, "C08.changes.err")
			w.Commit()
			its = append(its, &itstate{it: it, s: &c07state{d: d, committed: committed, replay: &vnd.Map{}}, open: true})
		}
	}
	// EARLY=1: the iterators are created on the never-written table (revision 0)
	if vnd.Param("EARLY", 0) == 1 {
		mkIters()
	}
	w := d.db.WriteTxn(t)
	for _, k := range []string{"a", "b"} {
		t.Insert(w, &vobj{id: []byte(k)})
		committed.rev++
		committed.revs.Put([]byte(k), committed.rev)
	}
	w.Commit()

	if vnd.Param("EARLY", 0) == 0 {
		mkIters()
	}
	anyOpen := func() bool {
		for _, x := range its {
			if x.open {
				return true
			}
		}
		return false
	}
	drain := func(x *itstate) {
		for k := 0; k < 3; k++ {
			seq, watch := x.it.Next(d.db.ReadTxn())
			n := x.s.consume(seq, -1)
			if !vnd.IsClosed(watch) {
				vnd.Assert(n == 0, "C08.open-watch-delivers-nothing")
				x.atRev, x.full = committed.rev, true
				return
			}
		}
	}
	if vnd.Param("EARLY", 0) == 1 {
		// the early iterators learn the pre-state objects (delivering updates
		// does not move their delete trackers, which stay at revision 0)
		for _, x := range its {
			drain(x)
		}
	}
	if vnd.Param("SCRIPT", 0) == 1 {
		// concrete prefix: delete "a" while the iterators are open, then close all of
		// them without giving the collector a chance to run
		w := d.db.WriteTxn(t)
		t.Delete(w, &vobj{id: []byte("a")})
		committed.revs.Del([]byte("a"))
		committed.rev++
		w.Commit()
		for _, x := range its {
			x.it.Close()
			x.open = false
		}
	}
	if vnd.Param("SCRIPT", 0) == 2 {
		// concrete prefix: delete "a" while all iterators are open and lagging
		w := d.db.WriteTxn(t)
		t.Delete(w, &vobj{id: []byte("a")})
		committed.revs.Del([]byte("a"))
		committed.rev++
		w.Commit()
	}
	// STEPS: bit mask of allowed step kinds (0 = steps 0..STEPMAX)
	var menu []int
	for st := 0; st <= 8; st++ {
		if m := vnd.Param("STEPS", 0); (m == 0 && st <= vnd.Param("STEPMAX", 4)) || m&(1<<st) != 0 {
			menu = append(menu, st)
		}
	}
	for i := 0; i < N; i++ {
		switch menu[vnd.IntRange("step", 0, len(menu)-1)] {
		case 8: // a writer holds the table while the collector scans, re-inserts keys, commits
			w := d.db.WriteTxn(t)
			vnd.Sleep(tick) // the collector (if triggered) scans lock-free and then waits for the table
			vnd.Settle()
			for _, ks := range []string{"a", "b"} {
				if vnd.Bool("reinsert") {
					t.Insert(w, &vobj{id: []byte(ks)})
					committed.rev++
					committed.revs.Put([]byte(ks), committed.rev)
				}
			}
			w.Commit()
			vnd.Settle()
			vnd.Cover("C08.writer-held-table-during-scan")
		case 7: // an iterator consumes only the first pending change of a fresh snapshot
			if len(its) == 0 {
				vnd.Assume(false)
			}
			x := its[vnd.IntRange("it", 0, len(its)-1)]
			if !x.open {
				vnd.Assume(false)
			}
			seq, _ := x.it.Next(d.db.ReadTxn())
			if x.s.consume(seq, 1) == 1 {
				vnd.Cover("C08.partial")
			}
		case 5: // a new iterator is created
			if len(its) >= 3 {
				vnd.Assume(false)
			}
			w := d.db.WriteTxn(t)
			it, err := t.Changes(w)
			vnd.Assert(err == nil, "C08.changes.err")
			w.Commit()
			nx := &itstate{it: it, s: &c07state{d: d, committed: committed, replay: &vnd.Map{}}, open: true}
			its = append(its, nx)
			drain(nx) // learns the current objects
			vnd.Cover("C08.new-iterator")
		case 6: // an iterator catches up using an open write transaction that has a pending delete, which then commits
			if len(its) == 0 {
				vnd.Assume(false)
			}
			x := its[vnd.IntRange("it", 0, len(its)-1)]
			if !x.open {
				vnd.Assume(false)
			}
			k := []byte{byte('a' + vnd.IntRange("key", 0, 1))}
			w := d.db.WriteTxn(t)
			_, had, _ := t.Delete(w, &vobj{id: k})
			seq, _ := x.it.Next(w)
			x.s.consume(seq, -1)
			w.Commit()
			committed.revs.Del(k)
			if had {
				committed.rev++
			}
			vnd.Cover("C08.next-with-writetxn")
		case 0, 1: // insert or delete one of two keys
			k := []byte{byte('a' + vnd.IntRange("key", 0, 1))}
			w := d.db.WriteTxn(t)
			if vnd.Param("CAS", 1) == 1 && vnd.Bool("cas") {
				// an always-rejected compare-and-swap changes nothing
				_, _, err := t.CompareAndSwap(w, 1<<40, &vobj{id: k})
				vnd.Assert(err != nil, "C08.harness.cas-rejected")
			} else if vnd.Bool("insert") {
				t.Insert(w, &vobj{id: k})
				committed.rev++
				committed.revs.Put(k, committed.rev)
			} else {
				_, had, _ := t.Delete(w, &vobj{id: k})
				committed.revs.Del(k)
				if had {
					committed.rev++
					vnd.Cover("C08.deleted")
				}
			}
			w.Commit()
		case 2: // an iterator catches up
			if len(its) == 0 {
				vnd.Assume(false)
			}
			x := its[vnd.IntRange("it", 0, len(its)-1)]
			if !x.open {
				vnd.Assume(false)
			}
			drain(x)
			vnd.Assert(vnd.EqualMaps(x.s.replay, committed.revs), "C08.converged-after-drain")
		case 3: // an iterator is closed
			if len(its) == 0 {
				vnd.Assume(false)
			}
			x := its[vnd.IntRange("it", 0, len(its)-1)]
			if !x.open {
				vnd.Assume(false)
			}
			x.it.Close()
			x.open = false
			vnd.Cover("C08.closed")
		case 4: // time passes: the collector may run
			// a snapshot taken before the collection is frozen (C01: "graveyard collection
			// ... cannot change that"), including what it retains of deleted objects
			S := d.db.ReadTxn()
			before := c08observe(t, gt, S)
			vnd.Sleep(tick)
			sameObs(before, c08observe(t, gt, S), "C08.gc.snapshot-frozen")
			vnd.Cover("C08.gc-window")
		}
		// retained objects never appear in queries or counts
		rt := d.db.ReadTxn()
		vnd.Assert(t.NumObjects(rt) == committed.revs.Len(), "C08.count-excludes-graveyard")
		// neither collection nor iterator bookkeeping is a write to the table
		vnd.Assert(t.Revision(rt) == committed.rev, "C08.revision-unaffected")
		{
			ids, _, revs := collectObjs(t.All(rt))
			committed.revs.CheckOrdered(ids, revs, vnd.SelAll, "C08.contents")
		}
		if gt.numDeletedObjects(rt) > 0 {
			vnd.Cover("C08.retained")
		}
		if !anyOpen() && NIT == 0 {
			vnd.Assert(gt.numDeletedObjects(rt) == 0, "C08.nothing-retained-without-iterators")
		}
	}
	// let the collector run once more before the lagging iterators catch up
	vnd.Sleep(tick)
	vnd.Settle()
	// safety: every still-open (lagging) iterator converges to the final table:
	// a deletion collected before it was handed out would leave a stale object
	for _, x := range its {
		// an iterator that already consumed everything up to the final table state is left
		// alone: discarding what only closed or caught-up iterators were waiting for must not
		// depend on one more Next
		if x.open && !(vnd.Param("NOFINALDRAIN", 0) == 1 && x.full && x.atRev == committed.rev) {
			drain(x)
			vnd.Assert(vnd.EqualMaps(x.s.replay, committed.revs), "C08.lagging-iterator-converges")
		} else if x.open {
			vnd.Cover("C08.caught-up-iterator-left-alone")
		}
	}
	// liveness: all iterators caught up (or closed); after the rate-limit
	// interval the graveyard is empty
	hadGarbage := gt.numDeletedObjects(d.db.ReadTxn()) > 0
	for k := 0; k < 3; k++ {
		vnd.Sleep(tick)
	}
	vnd.Settle()
	if hadGarbage {
		vnd.Cover("C08.collected-something")
	}
	vnd.Assert(gt.numDeletedObjects(d.db.ReadTxn()) == 0, "C08.collected-when-caught-up")
	for _, x := range its {
		if x.open {
			x.it.Close()
		}
	}
	d.db.Stop()
	vnd.Cover("C08.end")
}
