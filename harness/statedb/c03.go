package statedb

import (
	"errors"

	"github.com/cilium/statedb/internal/vnd"
)

func init() {
	verifEntries["VerifC03Driver"] = VerifC03Driver
}

const (
	wInsert = iota
	wDelete
	wCAS
	wCAD
	wModify
	wCommit
	wAbort
	wDeleteAll
	wInsertWatch
	wWrongTable
	wClosedTxn
	numWops
)

// VerifC03Driver: a symbolic sequence of write operations against the real
// table and a keyed-map model (C03), with a ghost revision counter (C09).
func VerifC03Driver() {
	N := vnd.Param("N", 3)
	L := vnd.Param("L", 1)
	opsMask := vnd.Param("OPS", (1<<numWops)-1)
	var menu []int
	for o := 0; o < numWops; o++ {
		if opsMask&(1<<o) != 0 {
			menu = append(menu, o)
		}
	}
	d := newVDB(vTagsIndex)
	other, err := NewTable[*vobj](d.db, "other", vIDIndex)
	if err != nil {
		panic(err)
	}
	committed := newDBModel() // committed state
	pending := newDBModel()   // state inside the open write transaction
	wtxn := d.db.WriteTxn(d.table)
	var lastClosed WriteTxn
	snapRev := d.table.Revision(d.db.ReadTxn())

	for i := 0; i < N; i++ {
		var op int
		if f := vnd.Param("FIRSTOP", 0); f > 0 && i == 0 {
			op = f - 1 // scripted first operation
		} else {
			op = menu[vnd.IntRange("op", 0, len(menu)-1)]
		}
		val := uint64(100 + i)
		switch op {
		case wInsert, wInsertWatch:
			k := vnd.Bytes("k", L)
			obj := &vobj{id: k, tags: [][]byte{{byte(i)}}, val: val}
			var old *vobj
			var had bool
			var err error
			if op == wInsert {
				old, had, err = d.table.Insert(wtxn, obj)
			} else {
				var w <-chan struct{}
				old, had, w, err = d.table.InsertWatch(wtxn, obj)
				pa(vnd.Not(vnd.IsClosed(w)), "C03.insertwatch.open")
			}
			mo, mh := pending.vals.Put(k, val)
			pending.rev++
			pending.revs.Put(k, pending.rev)
			pa(err == nil, "C03.insert.err")
			pa(vnd.Iff(had, mh), "C03.insert.had")
			if had {
				pa(vnd.Implies(mh, old.val == mo), "C03.insert.old")
				vnd.Cover("C03.replaced")
			}
			pa(d.table.Revision(wtxn) == pending.rev, "C09.insert.revision")
		case wModify:
			k := vnd.Bytes("k", L)
			obj := &vobj{id: k, val: val}
			// merge kinds: a new value computed from both / a fresh copy equal to the old
			// object (a Modify that leaves the contents as they were is still a successful
			// write: it is assigned a new revision). Returning the old pointer itself is
			// rejected by the library (documented panic) and not part of the menu.
			mk := vnd.IntRange("mergekind", 0, 1)
			old, had, err := d.table.Modify(wtxn, obj, func(o, n *vobj) *vobj {
				switch mk {
				case 1:
					return &vobj{id: o.id, tags: o.tags, pfx: o.pfx, plen: o.plen, pfx2: o.pfx2, pln2: o.pln2, val: o.val}
				}
				return &vobj{id: n.id, val: o.val*2 + n.val}
			})
			mo, mh := pending.vals.Get(k)
			if mk == 0 {
				pending.vals.Put(k, vnd.IteU64(mh, mo*2+val, val))
			} else {
				pending.vals.Put(k, vnd.IteU64(mh, mo, val))
				vnd.Cover("C03.modify-keeps-contents")
			}
			pending.rev++
			pending.revs.Put(k, pending.rev)
			pa(err == nil, "C03.modify.err")
			pa(vnd.Iff(had, mh), "C03.modify.had")
			if had {
				pa(vnd.Implies(mh, old.val == mo), "C03.modify.old")
			}
			pa(d.table.Revision(wtxn) == pending.rev, "C09.modify.revision")
		case wDelete:
			k := vnd.Bytes("k", L)
			old, had, err := d.table.Delete(wtxn, &vobj{id: k})
			mo, mh := pending.vals.Del(k)
			pending.revs.Del(k)
			pending.rev = vnd.IteU64(mh, pending.rev+1, pending.rev)
			pa(err == nil, "C03.delete.err")
			pa(vnd.Iff(had, mh), "C03.delete.had")
			if had {
				pa(vnd.Implies(mh, old.val == mo), "C03.delete.old")
				vnd.Cover("C03.deleted-existing")
			} else {
				vnd.Cover("C03.deleted-absent")
			}
			pa(d.table.Revision(wtxn) == pending.rev, "C09.delete.revision")
		case wCAS:
			k := vnd.Bytes("k", L)
			guard := vnd.Uint64("guard")
			old, had, err := d.table.CompareAndSwap(wtxn, guard, &vobj{id: k, val: val})
			mo, mh := pending.vals.Get(k)
			mr, _ := pending.revs.Get(k)
			// guard == 0 behaves as a plain insert (documented: no guard)
			succeed := vnd.Or(guard == 0, vnd.And(mh, mr == guard))
			pending.vals.PutIf(succeed, k, val)
			pending.rev = vnd.IteU64(succeed, pending.rev+1, pending.rev)
			pending.revs.PutIf(succeed, k, pending.rev)
			pa(vnd.Iff(err == nil, succeed), "C03.cas.success")
			if err != nil {
				pa(vnd.Iff(errors.Is(err, ErrObjectNotFound), vnd.Not(mh)), "C03.cas.notfound")
				pa(vnd.Iff(errors.Is(err, ErrRevisionNotEqual), mh), "C03.cas.notequal")
				vnd.Cover("C03.cas-rejected")
			} else {
				vnd.Cover("C03.cas-ok")
			}
			pa(vnd.Iff(had, mh), "C03.cas.had")
			if had {
				pa(vnd.Implies(mh, old.val == mo), "C03.cas.old")
			}
			pa(d.table.Revision(wtxn) == pending.rev, "C09.cas.revision")
		case wCAD:
			k := vnd.Bytes("k", L)
			guard := vnd.Uint64("guard")
			old, had, err := d.table.CompareAndDelete(wtxn, guard, &vobj{id: k})
			mo, mh := pending.vals.Get(k)
			mr, _ := pending.revs.Get(k)
			succeed := vnd.And(mh, vnd.Or(guard == 0, mr == guard))
			pending.vals.DelIf(succeed, k)
			pending.revs.DelIf(succeed, k)
			pending.rev = vnd.IteU64(succeed, pending.rev+1, pending.rev)
			pa(vnd.Iff(had, mh), "C03.cad.had")
			pa(vnd.Iff(err == nil, vnd.Or(succeed, vnd.Not(mh))), "C03.cad.err")
			if err != nil {
				pa(errors.Is(err, ErrRevisionNotEqual), "C03.cad.notequal")
				vnd.Cover("C03.cad-rejected")
			}
			if had {
				pa(vnd.Implies(mh, old.val == mo), "C03.cad.old")
			}
			pa(d.table.Revision(wtxn) == pending.rev, "C09.cad.revision")
		case wDeleteAll:
			err := d.table.DeleteAll(wtxn)
			pa(err == nil, "C03.deleteall.err")
			n := pending.vals.Len()
			for j := range pending.vals.E {
				pending.vals.E[j].Present = false
			}
			for j := range pending.revs.E {
				pending.revs.E[j].Present = false
			}
			pending.rev = pending.rev + uint64(n)
			pa(d.table.NumObjects(wtxn) == 0, "C03.deleteall.empty")
			pa(d.table.Revision(wtxn) == pending.rev, "C09.deleteall.revision")
		case wCommit:
			rtxn := wtxn.Commit()
			lastClosed = wtxn
			committed = pending.snapshot()
			q := vnd.Bytes("cq", L)
			checkTable(d.table, rtxn, committed, q, "commit-snapshot")
			pa(d.table.Revision(d.db.ReadTxn()) >= snapRev, "C09.revision.monotone")
			snapRev = d.table.Revision(d.db.ReadTxn())
			wtxn = d.db.WriteTxn(d.table)
			vnd.Cover("C03.committed")
		case wAbort:
			wtxn.Abort()
			lastClosed = wtxn
			pending = committed.snapshot()
			pa(d.table.Revision(d.db.ReadTxn()) == committed.rev, "C09.abort.revision")
			wtxn = d.db.WriteTxn(d.table)
			vnd.Cover("C03.aborted")
		case wWrongTable:
			// a write on a table the transaction does not hold changes nothing
			k := vnd.Bytes("k", L)
			var err error
			switch vnd.IntRange("wt", 0, 2) {
			case 0:
				_, _, err = other.Insert(wtxn, &vobj{id: k, val: val})
			case 1:
				_, _, err = other.Delete(wtxn, &vobj{id: k})
			case 2:
				_, _, err = other.CompareAndSwap(wtxn, 1, &vobj{id: k, val: val})
			}
			pa(err != nil && errors.Is(err, ErrTableNotLockedForWriting), "C03.wrongtable.err")
			pa(other.NumObjects(wtxn) == 0, "C03.wrongtable.unchanged")
			pa(other.Revision(wtxn) == 0 && other.Revision(d.db.ReadTxn()) == 0, "C03.wrongtable.revision-unchanged")
			pa(other.Revision(wtxn) == 0, "C09.wrongtable.revision")
			vnd.Cover("C03.wrong-table")
		case wClosedTxn:
			if lastClosed == nil {
				vnd.Assume(false)
			}
			k := vnd.Bytes("k", L)
			var err error
			switch vnd.IntRange("ct", 0, 4) {
			case 0:
				_, _, err = d.table.Insert(lastClosed, &vobj{id: k, val: val})
			case 1:
				_, _, err = d.table.Delete(lastClosed, &vobj{id: k})
			case 2:
				_, _, err = d.table.CompareAndSwap(lastClosed, 1, &vobj{id: k, val: val})
			case 3:
				_, _, err = d.table.CompareAndDelete(lastClosed, 1, &vobj{id: k})
			case 4:
				_, _, err = d.table.Modify(lastClosed, &vobj{id: k, val: val}, func(o, n *vobj) *vobj { return n })
			}
			pa(err != nil && errors.Is(err, ErrTransactionClosed), "C03.closedtxn.err")
			vnd.Cover("C03.closed-txn")
		}
	}
	// reads inside the transaction see its own writes
	q := vnd.Bytes("q", L)
	checkTable(d.table, wtxn, pending, q, "pending")
	// other transactions see the committed state only
	checkTable(d.table, d.db.ReadTxn(), committed, q, "committed-view")
	// live objects have pairwise distinct revisions; by-revision order
	_, _, revs := collectObjs(d.table.LowerBound(wtxn, ByRevision[*vobj](0)))
	for j := 0; j+1 < len(revs); j++ {
		pa(revs[j] < revs[j+1], "C09.byrevision.ascending")
	}
	pa(len(revs) == pending.vals.Len(), "C09.byrevision.complete")
	if vnd.IntRange("end", 0, 1) == 0 {
		wtxn.Commit()
		checkTable(d.table, d.db.ReadTxn(), pending, q, "final-commit")
	} else {
		wtxn.Abort()
		checkTable(d.table, d.db.ReadTxn(), committed, q, "final-abort")
	}
	vnd.Cover("C03.end")
}
