package statedb

import (
	"context"
	"time"

	"github.com/cilium/statedb/internal/vnd"
)

func init() {
	verifEntries["VerifC20WatchSet"] = VerifC20WatchSet
}

// VerifC20WatchSet: WatchSet.Wait under virtual time. n channels are added;
// each is closed before the call, at a symbolic time during it, or never; the
// context is cancelled at a symbolic time or never; settle time 0 or S.
func VerifC20WatchSet() {
	n := vnd.Param("NCH", 2)
	TMAX := vnd.Param("TMAX", 3)
	const unit = int64(time.Millisecond)
	ws := NewWatchSet()
	chans := make([]chan struct{}, n)
	closeAt := make([]int, n) // -1 never, 0 before the call, k>0 at time k
	// MERGE=1: a member enters the set directly (Add) or through another set that is merged in;
	// a set that was cleared before being merged contributes nothing
	other, junk := NewWatchSet(), NewWatchSet()
	for i := range chans {
		chans[i] = make(chan struct{})
		if vnd.Param("MERGE", 0) == 1 && vnd.Bool("via-merge") {
			other.Add(chans[i])
			vnd.Cover("C20.merged-member")
		} else {
			ws.Add(chans[i])
		}
		closeAt[i] = vnd.IntRange("closeAt", -1, TMAX)
	}
	outsider := make(chan struct{})
	close(outsider) // closed, but never added
	junkCh := make(chan struct{})
	close(junkCh) // closed, added to a set that is cleared before it is merged
	if vnd.Param("MERGE", 0) == 1 {
		junk.Add(junkCh)
		junk.Clear()
		ws.Merge(other)
		ws.Merge(junk)
		for i := range chans {
			vnd.Assert(ws.Has(chans[i]), "C20.merge.member-missing")
		}
		vnd.Assert(!ws.Has(junkCh) && !junk.Has(junkCh), "C20.clear.member-survived")
		var all []<-chan struct{}
		for i := range chans {
			all = append(all, chans[i])
		}
		vnd.Assert(ws.HasAny(all) == (len(chans) > 0), "C20.hasany.members")
		vnd.Assert(!ws.HasAny([]<-chan struct{}{outsider, junkCh}), "C20.hasany.non-members")
	}
	cancelAt := vnd.IntRange("cancelAt", -1, TMAX)
	settle := vnd.IntRange("settle", 0, 1) * 2 // 0 or 2 units

	ctx, cancel := context.WithCancel(context.Background())
	defer cancel()
	for i := range chans {
		i := i
		switch {
		case closeAt[i] == 0:
			close(chans[i])
		case closeAt[i] > 0:
			vnd.Go(func() {
				vnd.Sleep(int64(closeAt[i]) * unit)
				close(chans[i])
			})
		}
	}
	if cancelAt == 0 {
		cancel()
	} else if cancelAt > 0 {
		vnd.Go(func() {
			vnd.Sleep(int64(cancelAt) * unit)
			cancel()
		})
	}
	if cancelAt < 0 {
		// without cancellation some member must eventually close, else Wait blocks forever (by contract)
		any := false
		for i := range chans {
			if closeAt[i] >= 0 {
				any = true
			}
		}
		if !any {
			vnd.Assume(false)
		}
	}

	t0 := vnd.Now()
	res, err := ws.Wait(ctx, time.Duration(int64(settle)*unit))
	t1 := vnd.Now()
	ret := int((t1 - t0) / unit) // virtual time of return, in units

	firstClose := -1
	for i := range chans {
		if closeAt[i] >= 0 && (firstClose < 0 || closeAt[i] < firstClose) {
			firstClose = closeAt[i]
		}
	}
	// only added, closed channels are returned; each at most once
	for j, r := range res {
		idx := -1
		for i := range chans {
			if (<-chan struct{})(chans[i]) == r {
				idx = i
			}
		}
		vnd.Assert(idx >= 0, "C20.returned-not-a-member")
		if idx >= 0 {
			vnd.Assert(closeAt[idx] >= 0 && closeAt[idx] <= ret, "C20.returned-not-closed")
		}
		for j2 := 0; j2 < j; j2++ {
			vnd.Assert(res[j2] != r, "C20.returned-twice")
		}
		vnd.Assert(!ws.Has(r), "C20.returned-still-in-set")
	}
	// all others stay in the set
	for i := range chans {
		returned := false
		for _, r := range res {
			if (<-chan struct{})(chans[i]) == r {
				returned = true
			}
		}
		if !returned {
			vnd.Assert(ws.Has(chans[i]), "C20.unreturned-removed")
		}
	}
	vnd.Assert(!ws.Has(outsider), "C20.outsider")
	vnd.Assert(!ws.Has(junkCh), "C20.cleared-channel-is-member")
	if err == nil {
		vnd.Assert(len(res) > 0, "C20.nil-error-empty-result")
		vnd.Cover("C20.result")
	} else {
		vnd.Assert(cancelAt >= 0 && cancelAt <= ret, "C20.error-without-cancel")
		vnd.Assert(err == ctx.Err(), "C20.error-is-ctx-err")
		vnd.Cover("C20.cancelled")
	}
	// does not return while nothing is closed and the context is alive
	earliest := firstClose
	if cancelAt >= 0 && (earliest < 0 || cancelAt < earliest) {
		earliest = cancelAt
	}
	vnd.Assert(ret >= earliest, "C20.returned-too-early")
	// returns once a member is closed, waiting at most the settle time
	if firstClose >= 0 && (cancelAt < 0 || firstClose < cancelAt) {
		vnd.Assert(len(res) > 0, "C20.closed-member-not-returned")
		vnd.Assert(ret <= firstClose+settle, "C20.waited-longer-than-settle")
		if settle > 0 && len(res) > 1 {
			vnd.Cover("C20.settled-several")
		}
	}
	// a second Wait on the same (now smaller) set: only current members that are
	// closed may be returned
	if err == nil && vnd.Param("SECOND", 1) == 1 {
		ctx2, cancel2 := context.WithTimeout(context.Background(), time.Duration(unit))
		res2, err2 := ws.Wait(ctx2, 0)
		cancel2()
		now := int((vnd.Now() - t0) / unit)
		for _, r := range res2 {
			idx := -1
			for i := range chans {
				if (<-chan struct{})(chans[i]) == r {
					idx = i
				}
			}
			vnd.Assert(idx >= 0, "C20.second.returned-not-a-member")
			for _, r1 := range res {
				vnd.Assert(r1 != r, "C20.second.returned-a-removed-channel")
			}
			if idx >= 0 {
				vnd.Assert(closeAt[idx] >= 0 && closeAt[idx] <= now, "C20.second.returned-not-closed")
			}
		}
		if err2 == nil {
			vnd.Assert(len(res2) > 0, "C20.second.nil-error-empty-result")
		}
		vnd.Cover("C20.second-wait")
	}
	vnd.Cover("C20.end")
}
