package statedb

import (
	"github.com/cilium/statedb/internal/vnd"
)

func init() {
	verifEntries["VerifC08TwoTables"] = VerifC08TwoTables
}

// VerifC08TwoTables: two tables, each with its own change iterator, and the
// real graveyard worker as a VM thread. Per round (ROUNDS of them) symbolic
// choices decide which object of which table is deleted, which iterator
// catches up, and whether the collector gets a chance to run - so that one
// collection run finds collectable entries in both tables while one of them
// still holds a deletion its iterator has not been handed. The number of
// objects of the second table is symbolic (it shifts that table's revision
// numbers against the first table's).
func VerifC08TwoTables() {
	ROUNDS := vnd.Param("ROUNDS", 1)
	db := New(WithMetrics(&NopMetrics{}))
	const tick = int64(2_000_000_000)
	type side struct {
		t         RWTable[*vobj]
		gt        *genTable[*vobj]
		it        ChangeIterator[*vobj]
		s         *c07state
		committed *dbModel
		keys      []string
	}
	mk := func(name string, keys []string) *side {
		t, err := NewTable[*vobj](db, name, vIDIndex)
		if err != nil {
			panic(err)
		}
		sd := &side{t: t, gt: t.(*genTable[*vobj]), committed: newDBModel(), keys: keys}
		w := db.WriteTxn(t)
		for _, k := range keys {
			t.Insert(w, &vobj{id: []byte(k)})
			sd.committed.rev++
			sd.committed.revs.Put([]byte(k), sd.committed.rev)
		}
		it, err := t.Changes(w)
		vnd.Assert(err == nil, "C08.two.changes.err")
		w.Commit()
		sd.it = it
		sd.s = &c07state{committed: sd.committed, replay: &vnd.Map{}}
		return sd
	}
	nb := vnd.IntRange("nb", 1, 3)
	a := mk("ta", []string{"x", "y"})
	b := mk("tb", []string{"p", "q", "r"}[:nb])
	db.Start()
	drain := func(sd *side) {
		for k := 0; k < 3; k++ {
			seq, watch := sd.it.Next(db.ReadTxn())
			n := sd.s.consume(seq, -1)
			if !vnd.IsClosed(watch) {
				vnd.Assert(n == 0, "C08.two.open-watch-delivers-nothing")
				return
			}
		}
	}
	del := func(sd *side, tag string) {
		c := vnd.IntRange(tag, 0, len(sd.keys))
		if c == len(sd.keys) {
			return
		}
		k := []byte(sd.keys[c])
		w := db.WriteTxn(sd.t)
		_, had, _ := sd.t.Delete(w, &vobj{id: k})
		w.Commit()
		sd.committed.revs.Del(k)
		if had {
			sd.committed.rev++
		}
	}
	// both iterators learn the pre-state
	drain(a)
	drain(b)
	for r := 0; r < ROUNDS; r++ {
		del(a, "a.del1")
		if vnd.Bool("a.drain") {
			drain(a)
		}
		del(a, "a.del2")
		del(b, "b.del")
		if vnd.Bool("b.drain") {
			drain(b)
		}
		if vnd.Bool("gc") {
			vnd.Sleep(tick)
			vnd.Settle()
			vnd.Cover("C08.two.gc-window")
		}
		for _, sd := range []*side{a, b} {
			rt := db.ReadTxn()
			vnd.Assert(sd.t.NumObjects(rt) == sd.committed.revs.Len(), "C08.two.count-excludes-graveyard")
		}
	}
	vnd.Sleep(tick)
	vnd.Settle()
	// safety: lagging iterators still converge (nothing was collected before being handed out)
	for _, sd := range []*side{a, b} {
		drain(sd)
		vnd.Assert(vnd.EqualMaps(sd.s.replay, sd.committed.revs), "C08.two.lagging-iterator-converges")
	}
	// liveness: with both iterators caught up the graveyards empty
	for k := 0; k < 3; k++ {
		vnd.Sleep(tick)
	}
	vnd.Settle()
	for _, sd := range []*side{a, b} {
		vnd.Assert(sd.gt.numDeletedObjects(db.ReadTxn()) == 0, "C08.two.collected-when-caught-up")
	}
	a.it.Close()
	b.it.Close()
	db.Stop()
	vnd.Cover("C08.two.end")
}
