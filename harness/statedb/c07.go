package statedb

import (
	"github.com/cilium/statedb/internal/vnd"
)

func init() {
	verifEntries["VerifC07Changes"] = VerifC07Changes
	verifEntries["VerifKFNextUncommitted"] = VerifKFNextUncommitted
}

type c07state struct {
	d         *vdb
	committed *dbModel // committed table state (vals unused, revs used)
	replay    *vnd.Map // what the consumer has reconstructed (id -> revision)
	lastRev   uint64   // last delivered revision
	delivered int
}

// consume drains (fully or up to max elements) the sequence returned by Next.
func (s *c07state) consume(seq func(yield func(Change[*vobj], Revision) bool), max int) (n int) {
	seq(func(c Change[*vobj], rev Revision) bool {
		vnd.Assert(c.Revision == rev, "C07.change.revision-field")
		vnd.Assert(rev > s.lastRev, "C07.order.strictly-increasing")
		s.lastRev = rev
		if c.Deleted {
			s.replay.Del(c.Object.id)
			vnd.Cover("C07.delete-delivered")
		} else {
			s.replay.Put(c.Object.id, rev)
		}
		n++
		s.delivered++
		return max < 0 || n < max
	})
	return
}

// VerifC07Changes: a change iterator over a symbolic history.
func VerifC07Changes() {
	N := vnd.Param("N", 3)
	L := vnd.Param("L", 1)
	PRE := vnd.Param("PRE", 1)
	d := newVDB()
	s := &c07state{d: d, committed: newDBModel(), replay: &vnd.Map{}}
	t := d.table
	other, oerr := NewTable[*vobj](d.db, "other", vIDIndex)
	if oerr != nil {
		panic(oerr)
	}

	write := func(w WriteTxn, m *dbModel, tag string) {
		k := vnd.Bytes(tag, L)
		if vnd.Param("CAS", 1) == 1 && vnd.Bool(tag+".cas") {
			// a compare-and-swap that is always rejected (guard never matches):
			// changes nothing, whether the key exists, is deleted or never existed
			_, _, err := t.CompareAndSwap(w, 1<<40, &vobj{id: k})
			vnd.Assert(err != nil, "C07.harness.cas-rejected")
			vnd.Cover("C07.rejected-cas")
			return
		}
		if vnd.Bool(tag + ".insert") {
			t.Insert(w, &vobj{id: k})
			m.rev++
			m.revs.Put(k, m.rev)
		} else {
			t.Delete(w, &vobj{id: k})
			_, had := m.revs.Del(k)
			m.rev = vnd.IteU64(had, m.rev+1, m.rev)
		}
	}

	w := d.db.WriteTxn(t)
	for i := 0; i < PRE; i++ {
		k := []byte{byte('a' + i)}
		t.Insert(w, &vobj{id: k})
		s.committed.rev++
		s.committed.revs.Put(k, s.committed.rev)
	}
	w.Commit()

	w = d.db.WriteTxn(t)
	it, err := t.Changes(w)
	vnd.Assert(err == nil, "C07.changes.err")
	w.Commit()

	var openWatch <-chan struct{}
	check := func(what string) {
		vnd.Assert(vnd.EqualMaps(s.replay, s.committed.revs), "C07.converged."+what)
	}
	for i := 0; i < N; i++ {
		switch vnd.IntRange("step", 0, vnd.Param("STEPMAX", 3)) {
		case 0: // a write transaction, committed or aborted
			w := d.db.WriteTxn(t)
			pending := s.committed.snapshot()
			write(w, pending, "w")
			if vnd.Bool("commit") {
				changed := pending.rev != s.committed.rev
				w.Commit()
				s.committed = pending
				if openWatch != nil {
					vnd.Assert(vnd.Implies(changed, vnd.IsClosed(openWatch)), "C07.watch.closed-after-commit")
					openWatch = nil // may legitimately be closed from here on
				}
			} else {
				w.Abort()
				if openWatch != nil {
					vnd.Assert(vnd.Not(vnd.IsClosed(openWatch)), "C07.watch.open-after-abort")
				}
			}
		case 1: // Next with a fresh snapshot, fully consumed
			seq, watch := it.Next(d.db.ReadTxn())
			n := s.consume(seq, -1)
			if vnd.IsClosed(watch) {
				check("readtxn")
				openWatch = nil
			} else {
				vnd.Assert(n == 0, "C07.open-watch-delivers-nothing")
				openWatch = watch
				vnd.Cover("C07.open-watch")
			}
		case 2: // Next with an open write transaction that has a pending write
			w := d.db.WriteTxn(t)
			pending := s.committed.snapshot()
			write(w, pending, "p")
			if vnd.Known("KF-next-uncommitted-deletes", true) {
				w.Abort()
				vnd.Assume(false)
			}
			seq, watch := it.Next(w)
			n := s.consume(seq, -1)
			if vnd.IsClosed(watch) {
				// only committed changes are delivered, whatever the transaction holds
				check("writetxn")
				openWatch = nil
			} else {
				vnd.Assert(n == 0, "C07.open-watch-delivers-nothing")
				openWatch = watch
			}
			if vnd.Bool("pcommit") {
				changed := pending.rev != s.committed.rev
				w.Commit()
				s.committed = pending
				if openWatch != nil {
					vnd.Assert(vnd.Implies(changed, vnd.IsClosed(openWatch)), "C07.watch.closed-after-commit")
					openWatch = nil // may legitimately be closed from here on
				}
			} else {
				w.Abort()
				if openWatch != nil {
					vnd.Assert(vnd.Not(vnd.IsClosed(openWatch)), "C07.watch.open-after-abort")
				}
			}
			vnd.Cover("C07.next-with-writetxn")
		case 4: // Next with a write transaction on ANOTHER table that was opened before a later commit to this table
			ow := d.db.WriteTxn(other)
			old := s.committed.snapshot()
			{
				w := d.db.WriteTxn(t)
				pending := s.committed.snapshot()
				write(w, pending, "o")
				w.Commit()
				s.committed = pending
			}
			seq, watch := it.Next(ow)
			n := s.consume(seq, -1)
			if vnd.IsClosed(watch) {
				// converges to the snapshot that was passed to Next, not to a newer one
				vnd.Assert(vnd.EqualMaps(s.replay, old.revs), "C07.converged.older-writetxn-snapshot")
			} else {
				vnd.Assert(n == 0, "C07.open-watch-delivers-nothing")
			}
			ow.Abort()
			openWatch = nil
			vnd.Cover("C07.next-with-older-writetxn")
		case 3: // Next with a fresh snapshot, partially consumed (one element)
			seq, _ := it.Next(d.db.ReadTxn())
			s.consume(seq, 1)
			openWatch = nil
			vnd.Cover("C07.partial")
		}
	}
	// drain: Next until it reports nothing pending
	for k := 0; k < 3; k++ {
		seq, watch := it.Next(d.db.ReadTxn())
		n := s.consume(seq, -1)
		if !vnd.IsClosed(watch) {
			vnd.Assert(n == 0, "C07.open-watch-delivers-nothing")
			break
		}
		check("final")
	}
	check("end")
	it.Close()
	vnd.Cover("C07.end")
}

// VerifKFNextUncommitted: Next(WriteTxn) must not deliver that transaction's
// uncommitted deletion, and a later committed deletion must still arrive.
func VerifKFNextUncommitted() {
	d := newVDB()
	t := d.table
	w := d.db.WriteTxn(t)
	t.Insert(w, &vobj{id: []byte("a")})
	t.Insert(w, &vobj{id: []byte("b")})
	it, _ := t.Changes(w)
	w.Commit()
	seq, _ := it.Next(d.db.ReadTxn())
	for range seq {
	}
	w = d.db.WriteTxn(t)
	t.Insert(w, &vobj{id: []byte("c")})
	w.Commit()
	w = d.db.WriteTxn(t)
	t.Delete(w, &vobj{id: []byte("a")})
	seq, _ = it.Next(w)
	n := 0
	for c := range seq {
		vnd.Assert(!c.Deleted, "KF-next-uncommitted-deletes.delivered")
		n++
	}
	w.Abort()
	w = d.db.WriteTxn(t)
	t.Delete(w, &vobj{id: []byte("b")})
	w.Commit()
	seq, _ = it.Next(d.db.ReadTxn())
	dels := 0
	for c := range seq {
		if c.Deleted {
			dels++
		}
	}
	vnd.Assert(dels == 1, "KF-next-uncommitted-deletes.lost")
}
