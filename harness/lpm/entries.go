package lpm

var verifEntries = map[string]func(){}
