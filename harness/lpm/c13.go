package lpm

import (
	"github.com/cilium/statedb/internal/vnd"
)

func init() {
	verifEntries["VerifC13Driver"] = VerifC13Driver
}

// symKey returns an encoded LPM key with symbolic data bits and a prefix
// length chosen (as an explicit fork) in 0..W.
func symKey(tag string, W int) []byte {
	// PLSET: bitmask of allowed prefix lengths (default: every length 0..W)
	set := vnd.Param("PLSET", -1)
	var allowed []int
	for l := 0; l <= W; l++ {
		if set < 0 || set&(1<<uint(l)) != 0 {
			allowed = append(allowed, l)
		}
	}
	pl := allowed[vnd.IntRange(tag+".plen", 0, len(allowed)-1)]
	d := vnd.BytesN(tag, (pl+7)/8)
	return EncodeLPMKey(d, PrefixLen(pl))
}

// fullKey returns a full-length (W bits) key.
func fullKey(tag string, W int) []byte {
	d := vnd.BytesN(tag, W/8)
	return EncodeLPMKey(d, PrefixLen(W))
}

func plenOf(k []byte) int { return int(k[len(k)-2])<<8 | int(k[len(k)-1]) }

// covers: the prefix a covers the prefix/key b (la <= lb and equal first la bits).
func covers(a, b []byte) bool {
	la, lb := plenOf(a), plenOf(b)
	if la > lb {
		return false
	}
	r := true
	i := 0
	for ; i < la/8; i++ {
		r = vnd.And(r, a[i] == b[i])
	}
	if rem := la % 8; rem != 0 {
		mask := byte(0xff) << (8 - uint(rem))
		r = vnd.And(r, a[i]&mask == b[i]&mask)
	}
	return r
}

// bitsOf: the (masked) prefix bits left-aligned in 32 bits.
func bitsOf(k []byte) uint32 {
	var v uint32
	n := len(k) - 2
	for i := 0; i < 4; i++ {
		v <<= 8
		if i < n {
			v |= uint32(k[i])
		}
	}
	return v
}

// lessKey: ascending (prefix bits, prefix length).
func lessKey(a, b []byte) bool {
	va, vb := bitsOf(a), bitsOf(b)
	return vnd.Or(va < vb, vnd.And(va == vb, plenOf(a) < plenOf(b)))
}

type keptTrie struct {
	trie Trie[uint64]
	snap *vnd.Map
}

type keptIt struct {
	it   *Iterator[uint64]
	snap *vnd.Map
	sel  func([]byte) bool
	name string
}

func collectIt(it *Iterator[uint64]) (keys [][]byte, vals []uint64) {
	for k, v := range it.All {
		keys = append(keys, k)
		vals = append(vals, v)
	}
	return
}

// longest: oracle for Lookup of q (value of the longest stored prefix covering q).
func longest(m *vnd.Map, q []byte) (val uint64, found bool) {
	best := -1
	for i := range m.E {
		e := &m.E[i]
		c := vnd.And(e.Present, covers(e.Key, q))
		better := vnd.And(c, plenOf(e.Key) > best)
		best = vnd.IteInt(better, plenOf(e.Key), best)
		val = vnd.IteU64(better, e.Val, val)
		found = vnd.Or(found, c)
	}
	return
}

type lpmOps interface {
	Len() int
	Lookup(key []byte) (uint64, bool)
	LookupExact(key []byte) (uint64, bool)
}

func checkTrie(t *Trie[uint64], m *vnd.Map, qfull, qpre []byte, id string) {
	vnd.Assert(t.Len() == m.Len(), id+".len")
	if qfull != nil {
		// Lookup of a full-length key: longest covering stored prefix
		v, ok := t.Lookup(qfull)
		mv, mok := longest(m, qfull)
		vnd.Assert(vnd.Iff(ok, mok), id+".lookup.found")
		vnd.Assert(vnd.Implies(mok, v == mv), id+".lookup.value")
		keys, vals := collectIt(t.All())
		m.CheckOrderedLess(keys, vals, vnd.SelAll, lessKey, id+".all")
		return
	}
	var v uint64
	var ok bool
	var mv uint64
	var mok bool
	// LookupExact agrees with the map
	v, ok = t.LookupExact(qpre)
	mv, mok = m.Get(qpre)
	vnd.Assert(vnd.Iff(ok, mok), id+".exact.found")
	vnd.Assert(vnd.Implies(mok, v == mv), id+".exact.value")
	// a stored prefix always looks itself up
	v, ok = t.Lookup(qpre)
	vnd.Assert(vnd.Implies(mok, vnd.And(ok, v == mv)), id+".lookup.self")
	// All / Prefix / LowerBound
	keys, vals := collectIt(t.All())
	m.CheckOrderedLess(keys, vals, vnd.SelAll, lessKey, id+".all")
	keys, vals = collectIt(t.Prefix(qpre))
	m.CheckOrderedLess(keys, vals, func(k []byte) bool { return covers(qpre, k) }, lessKey, id+".prefix")
	keys, vals = collectIt(t.LowerBound(qpre))
	m.CheckOrderedLess(keys, vals, func(k []byte) bool { return vnd.Not(lessKey(k, qpre)) }, lessKey, id+".lowerbound")
}

const (
	lopInsert = iota
	lopDelete
	lopCommit
	lopKeepAll
	lopKeepPrefix
	lopKeepLowerBound
	lopBranch
	lopLookup
	numLops
)

// VerifC13Driver: N symbolic operations on an lpm.Trie against the model.
func VerifC13Driver() {
	N := vnd.Param("N", 3)
	W := vnd.Param("W", 8)
	opsMask := vnd.Param("OPS", (1<<numLops)-1)
	trie := New[uint64]()
	model := &vnd.Map{}
	txn := trie.Txn()
	// PRESET: concrete committed pre-state (branching shapes that need 4+ entries)
	for i, pk := range [][][2]int{nil, {{0, 1}, {64, 2}, {128, 1}, {192, 2}}, {{0, 0}, {0, 2}, {64, 2}, {128, 2}, {192, 2}}, {{16, 4}, {24, 5}, {32, 4}, {0, 1}}}[vnd.Param("PRESET", 0)] {
		k := EncodeLPMKey([]byte{byte(pk[0])}, PrefixLen(pk[1]))
		txn.Insert(k, uint64(100+i))
		model.Put(k, uint64(100+i))
	}
	if vnd.Param("PRESET", 0) > 0 {
		trie = txn.Commit()
		txn = trie.Txn()
	}
	kept := []keptTrie{{trie, model.Snapshot()}}
	var its []keptIt
	var menu []int
	for o := 0; o < numLops; o++ {
		if opsMask&(1<<o) != 0 {
			menu = append(menu, o)
		}
	}
	for i := 0; i < N; i++ {
		op := menu[vnd.IntRange("op", 0, len(menu)-1)]
		val := uint64(i + 1)
		switch op {
		case lopInsert:
			k := symKey("k", W)
			err := txn.Insert(k, val)
			vnd.Assert(err == nil, "C13.insert.err")
			_, had := model.Put(k, val)
			if had {
				vnd.Cover("C13.replaced")
			}
		case lopDelete:
			k := symKey("k", W)
			v, found := txn.Delete(k)
			mv, mh := model.Del(k)
			vnd.Assert(vnd.Iff(found, mh), "C13.delete.found")
			vnd.Assert(vnd.Implies(mh, v == mv), "C13.delete.value")
			if found {
				vnd.Cover("C13.deleted-existing")
			}
		case lopLookup:
			q := fullKey("q", W)
			v, ok := txn.Lookup(q)
			mv, mok := longest(model, q)
			vnd.Assert(vnd.Iff(ok, mok), "C13.txn.lookup.found")
			vnd.Assert(vnd.Implies(mok, v == mv), "C13.txn.lookup.value")
			vnd.Assert(txn.Len() == model.Len(), "C13.txn.len")
		case lopCommit:
			trie = txn.Commit()
			kept = append(kept, keptTrie{trie, model.Snapshot()})
			txn = trie.Txn()
		case lopKeepAll:
			its = append(its, keptIt{txn.All(), model.Snapshot(), vnd.SelAll, "all"})
		case lopKeepPrefix:
			p := symKey("p", W)
			its = append(its, keptIt{txn.Prefix(p), model.Snapshot(), func(k []byte) bool { return covers(p, k) }, "prefix"})
		case lopKeepLowerBound:
			p := symKey("p", W)
			its = append(its, keptIt{txn.LowerBound(p), model.Snapshot(), func(k []byte) bool { return vnd.Not(lessKey(k, p)) }, "lowerbound"})
		case lopBranch:
			j := vnd.IntRange("from", 0, len(kept)-1)
			trie = kept[j].trie
			model = kept[j].snap.Snapshot()
			txn = trie.Txn()
			vnd.Cover("C13.branched")
		}
	}
	final := txn.Commit()
	// CHECK=0: Lookup(full-length key) + All; CHECK=1: LookupExact/Lookup-self/Prefix/LowerBound
	var qfull, qpre []byte
	if vnd.Param("CHECK", 0) == 0 {
		qfull = fullKey("qf", W)
	} else {
		qpre = symKey("qp", W)
	}
	checkTrie(&final, model, qfull, qpre, "C13.final")
	for _, kt := range kept {
		t := kt.trie
		checkTrie(&t, kt.snap, qfull, qpre, "C13.kept")
	}
	for _, ki := range its {
		keys, vals := collectIt(ki.it)
		ki.snap.CheckOrderedLess(keys, vals, ki.sel, lessKey, "C13.keptiter."+ki.name)
	}
	if len(its) > 0 {
		vnd.Cover("C13.kept-iterator-compared")
	}
	vnd.Cover("C13.end")
}
