package reconciler

import (
	"context"
	"time"

	"golang.org/x/time/rate"

	"github.com/cilium/statedb"
	"github.com/cilium/statedb/index"
	"github.com/cilium/statedb/internal/vnd"
)

func init() { verifEntries["VerifC15Refresh"] = VerifC15Refresh }

// VerifC15Refresh: the real refreshLoop runs as a VM thread under virtual time
// with a refresh rate limiter (its Wait is a scheduling point). Two objects are
// Done and older than the refresh interval. Whenever the refresher gives up the
// processor (inside the rate limiter, or at any scheduling choice) the main
// thread may replace an object (new contents, Done or Pending), or delete it.
// The refresher's writes must change nothing but the status: the table always
// holds the latest user contents, a deleted object is not re-created, and an
// untouched old Done object does get marked for refresh.
func VerifC15Refresh() {
	const unit = int64(time.Millisecond)
	db := statedb.New(statedb.WithMetrics(&statedb.NopMetrics{}))
	table, err := statedb.NewTable[*robj](db, "robjs", robjIndex)
	if err != nil {
		panic(err)
	}
	idx := table.PrimaryIndexer()
	r := &reconciler[*robj]{
		Params: Params{DB: db},
		config: config[*robj]{
			Table:           table,
			GetObjectStatus: func(o *robj) Status { return o.status },
			SetObjectStatus: func(o *robj, s Status) *robj { o.status = s; return o },
			CloneObject:     func(o *robj) *robj { c := *o; return &c },
			options: options{
				Metrics:            nopRMetrics{},
				RefreshInterval:    time.Duration(10 * unit),
				RefreshRateLimiter: rate.NewLimiter(rate.Every(time.Second), 1),
			},
		},
		retries:        newRetries(time.Duration(unit), time.Duration(4*unit), func(o any) index.Key { return idx.ObjectToKey(o.(*robj)) }),
		primaryIndexer: idx,
		progress:       newProgressTracker(),
	}
	type model struct {
		present bool
		val     uint64
		touched bool
	}
	keys := map[byte]*model{'a': {present: true, val: 1}, 'b': {present: true, val: 2}}
	w := db.WriteTxn(table)
	table.Insert(w, &robj{id: 'a', val: 1, status: StatusDone()})
	table.Insert(w, &robj{id: 'b', val: 2, status: StatusDone()})
	w.Commit()

	ctx, cancel := context.WithCancel(context.Background())
	done := make(chan struct{})
	vnd.Go(func() {
		defer close(done)
		r.refreshLoop(ctx, nopHealth{})
	})
	vnd.Settle() // first pass: nothing is old enough
	vnd.Advance(11 * unit)
	next := uint64(10)
	// each time the main thread gets the processor while the refresher is at
	// work it may change one object
	for i := 0; i < vnd.Param("TURNS", 3); i++ {
		vnd.Yield()
		act := vnd.IntRange("act", 0, 3)
		if act == 0 {
			continue
		}
		id := byte('a' + vnd.IntRange("key", 0, 1))
		k := keys[id]
		w := db.WriteTxn(table)
		switch act {
		case 1: // new contents, already reconciled (Done) when the refresher looks again
			next++
			table.Insert(w, &robj{id: id, val: next, status: StatusDone()})
			k.present, k.val = true, next
		case 2: // new contents, pending
			next++
			table.Insert(w, &robj{id: id, val: next, status: StatusPending()})
			k.present, k.val = true, next
		case 3:
			table.Delete(w, &robj{id: id})
			k.present = false
		}
		k.touched = true
		w.Commit()
		vnd.Cover("C15.refresh.user-write")
	}
	vnd.Settle()
	rt := db.ReadTxn()
	for id, k := range keys {
		o, _, ok := table.Get(rt, robjIndex.Query(id))
		vnd.Assert(ok == k.present, "C15.refresh.deleted-object-recreated-or-lost")
		if ok && k.present {
			vnd.Assert(o.val == k.val, "C15.refresh.newer-version-overwritten")
			if !k.touched {
				vnd.Assert(o.status.Kind == StatusKindRefreshing, "C15.refresh.old-done-object-not-marked")
				vnd.Cover("C15.refresh.marked")
			}
		}
	}
	cancel()
	<-done
	vnd.Cover("C15.refresh.end")
}
