package reconciler

import (
	"testing"

	"github.com/cilium/statedb/internal/vnd"
)

func TestVerifReplay(t *testing.T) { vnd.Run(t, verifEntries) }
