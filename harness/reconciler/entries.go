package reconciler

var verifEntries = map[string]func(){}
