package reconciler

import (
	"time"

	"github.com/cilium/statedb/index"
	"github.com/cilium/statedb/internal/vnd"
)

func init() {
	verifEntries["VerifC16Retries"] = VerifC16Retries
	verifEntries["VerifC16Backoff"] = VerifC16Backoff
}

func checkRetriesInvariants(rq *retries, id string) {
	for i, it := range rq.queue.items {
		vnd.Assert(it.index == i, id+".queue-index-field")
		if i > 0 {
			p := rq.queue.items[(i-1)/2]
			vnd.Assert(!it.retryAt.Before(p.retryAt), id+".queue-heap-order")
		}
		m, ok := rq.items[string(rq.objectToKey(it.object))]
		vnd.Assert(ok && m == it, id+".queued-item-not-in-map")
	}
	for i, it := range rq.revQueue.items {
		vnd.Assert(it.revIndex == i, id+".revqueue-index-field")
		if i > 0 {
			p := rq.revQueue.items[(i-1)/2]
			vnd.Assert(it.origRev >= p.origRev, id+".revqueue-heap-order")
		}
	}
}

// VerifC16Retries: sequences of N symbolic operations (Add of a new or
// existing object, Pop, Clear, passing time) on the real retry queue from the
// empty state, under virtual time: both heaps stay valid with consistent index
// fields, the low-watermark is the minimum original revision of the failed
// objects (0 when there is none), and a queued retry never fails to fire: once
// virtual time reaches the head's retryAt the Wait() channel is closed.
func VerifC16Retries() {
	N := vnd.Param("N", 4)
	const unit = int64(time.Millisecond)
	objs := []*robj{{id: 'a'}, {id: 'b'}, {id: 'c'}}
	rq := newRetries(time.Duration(unit), time.Duration(4*unit), func(o any) index.Key { return index.Key{o.(*robj).id} })
	// model: failed objects and their original revisions
	orig := map[byte]uint64{}
	retryAt := map[byte]int64{}
	fails := map[byte]int{}
	nobj := vnd.Param("NOBJ", 3)
	var menu []int
	for o := 0; o < 4; o++ {
		if vnd.Param("OPS", 15)&(1<<o) != 0 {
			menu = append(menu, o)
		}
	}
	for i := 0; i < N; i++ {
		switch menu[vnd.IntRange("op", 0, len(menu)-1)] {
		case 0:
			o := objs[vnd.IntRange("obj", 0, nobj-1)]
			origRev := uint64(vnd.IntRange("origrev", 1, 3))
			rq.Add(o, uint64(10+i), origRev, false, errScripted)
			orig[o.id] = origRev
			fails[o.id]++
			// the wait grows with consecutive failures and is capped
			d := rq.items[string(index.Key{o.id})].retryAt.Sub(time.Unix(0, 0).Add(0))
			_ = d
			want := unit << uint(fails[o.id])
			if want > 4*unit {
				want = 4 * unit
			}
			retryAt[o.id] = vnd.Now() + want
			got := time.Until(rq.items[string(index.Key{o.id})].retryAt)
			vnd.Assert(int64(got) == want, "C16.backoff-duration")
			vnd.Assert(int64(got) >= unit && int64(got) <= 4*unit, "C16.backoff-within-min-max")
		case 1:
			if it, ok := rq.Top(); ok {
				id := it.object.(*robj).id
				// the head is the object with the earliest retry time
				for k, at := range retryAt {
					_ = k
					vnd.Assert(retryAt[id] <= at, "C16.top-is-earliest")
				}
				rq.Pop()
				delete(retryAt, id)
				vnd.Cover("C16.popped")
			} else {
				vnd.Assert(len(retryAt) == 0, "C16.top-empty-with-queued-items")
			}
		case 2:
			o := objs[vnd.IntRange("obj", 0, nobj-1)]
			rq.Clear(o)
			delete(orig, o.id)
			delete(retryAt, o.id)
			delete(fails, o.id)
		case 3:
			vnd.Advance(unit * int64(vnd.IntRange("dt", 1, 4)))
			vnd.Settle()
		}
		checkRetriesInvariants(rq, "C16.invariant")
		min := uint64(0)
		for _, r := range orig {
			if min == 0 || r < min {
				min = r
			}
		}
		vnd.Assert(rq.LowWatermark() == min, "C16.low-watermark")
		vnd.Assert(rq.queue.Len() == len(retryAt), "C16.queue-length")
	}
	// a retry never fails to fire
	if it, ok := rq.Top(); ok {
		ch := rq.Wait()
		d := time.Until(it.retryAt)
		if d > 0 {
			vnd.Advance(int64(d))
		}
		vnd.Settle()
		vnd.Assert(vnd.IsClosed(ch), "C16.retry-timer-never-fired")
		vnd.Cover("C16.timer-fired")
	}
	vnd.Cover("C16.retries.end")
}

// VerifC16Backoff: the backoff function for attempts 1..12 on several
// configurations: non-decreasing, never below min*2 (first retry) ... capped by max.
func VerifC16Backoff() {
	for _, cfg := range [][2]int64{{1, 1}, {1, 4}, {2, 8}, {100, 60000}} {
		e := exponentialBackoff{min: time.Duration(cfg[0]) * time.Millisecond, max: time.Duration(cfg[1]) * time.Millisecond}
		prev := time.Duration(0)
		// up to 80 consecutive failures (2^attempt * min leaves the int64 range on the way)
		for a := 1; a <= 80; a++ {
			d := e.Duration(a)
			vnd.Assert(d >= prev, "C16.backoff-shrinks")
			vnd.Assert(d <= e.max, "C16.backoff-exceeds-max")
			vnd.Assert(d >= e.min || d == e.max, "C16.backoff-below-min")
			prev = d
		}
	}
	vnd.Cover("C16.backoff.end")
}
