package reconciler

import (
	"github.com/cilium/statedb/internal/vnd"
)

func init() { verifEntries["VerifC15StatusSet"] = VerifC15StatusSet }

// VerifC15StatusSet: StatusSet is a persistent value. A chain of PRE Set calls
// with distinct names (so that the backing slice gains spare capacity), then N
// symbolic Set/Pending calls, each applied to ANY earlier version; after every
// step every version ever produced still reports exactly the statuses it was
// given (a reconciler's status written on one version must not show up in, or
// clobber, another version that other reconcilers commit).
func VerifC15StatusSet() {
	N := vnd.Param("N", 2)
	PRE := vnd.Param("PRE", 3)
	names := []string{"a", "b", "c", "d", "e"}
	type ent struct {
		kind StatusKind
		id   uint64
		set  bool
	}
	type ver struct {
		s StatusSet
		m [5]ent
	}
	var vs []*ver
	checkAll := func(what string) {
		for _, v := range vs {
			for i, n := range names {
				st := v.s.Get(n)
				if v.m[i].set {
					vnd.Assert(st.Kind == v.m[i].kind, "C15.statusset."+what+".kind")
					vnd.Assert(st.ID == v.m[i].id, "C15.statusset."+what+".id")
				} else {
					vnd.Assert(st.Kind == StatusKindPending, "C15.statusset."+what+".absent-is-pending")
				}
			}
			cnt := 0
			for i := range names {
				if v.m[i].set {
					cnt++
				}
			}
			vnd.Assert(len(v.s.All()) == cnt, "C15.statusset."+what+".count")
		}
	}
	cur := &ver{s: NewStatusSet()}
	vs = append(vs, cur)
	for i := 0; i < PRE; i++ {
		nv := &ver{s: cur.s.Set(names[i], Status{Kind: StatusKindDone, ID: uint64(10 + i)}), m: cur.m}
		nv.m[i] = ent{StatusKindDone, uint64(10 + i), true}
		vs = append(vs, nv)
		cur = nv
	}
	checkAll("pre")
	for step := 0; step < N; step++ {
		base := vs[vnd.IntRange("base", 0, len(vs)-1)]
		if vnd.Bool("pending") {
			nv := &ver{s: base.s.Pending(), m: base.m}
			for i := range nv.m {
				if nv.m[i].set {
					nv.m[i].kind = StatusKindPending
					nv.m[i].id = nv.s.id
				}
			}
			vs = append(vs, nv)
			vnd.Cover("C15.statusset.pending")
		} else {
			ni := vnd.IntRange("name", 0, len(names)-1)
			kind := StatusKindDone
			if vnd.Bool("error") {
				kind = StatusKindError
			}
			id := uint64(100 + step)
			nv := &ver{s: base.s.Set(names[ni], Status{Kind: kind, ID: id}), m: base.m}
			nv.m[ni] = ent{kind, id, true}
			vs = append(vs, nv)
		}
		checkAll("step")
	}
	vnd.Cover("C15.statusset.end")
}
