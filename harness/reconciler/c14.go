package reconciler

import (
	"context"
	"errors"
	"iter"
	"time"

	"github.com/cilium/hive/cell"
	"github.com/cilium/statedb"
	"github.com/cilium/statedb/index"
	"github.com/cilium/statedb/internal/vnd"
)

func init() {
	verifEntries["VerifC14Rounds"] = VerifC14Rounds
}

// robj: the reconciled object; two status fields so that two reconcilers can share the table.
type robj struct {
	id      byte
	val     uint64
	status  Status
	status2 Status
	set     StatusSet // used instead of status when STATUSSET=1
}

func (o *robj) TableHeader() []string { return nil }
func (o *robj) TableRow() []string    { return nil }

var robjIndex = statedb.Index[*robj, byte]{
	Name:       "id",
	FromObject: func(o *robj) index.KeySet { return index.NewKeySet(index.Key{o.id}) },
	FromKey:    func(k byte) index.Key { return index.Key{k} },
	Unique:     true,
}

// pa asserts c under id unless the run is focused (param FOCUS) on another
// property than the one the id belongs to (ids start with "Cnn.").
func pa(c bool, id string) {
	if f := vnd.Param("FOCUS", 0); f != 0 && len(id) >= 4 && id[0] == 'C' {
		want := "C" + string(rune('0'+f/10)) + string(rune('0'+f%10)) + "."
		if id[:4] != want {
			return
		}
	}
	vnd.Assert(c, id)
}

type nopRMetrics struct{}

func (nopRMetrics) ReconciliationDuration(cell.FullModuleID, string, string, time.Duration) {}
func (nopRMetrics) ReconciliationErrors(cell.FullModuleID, string, int, int)                {}
func (nopRMetrics) PruneError(cell.FullModuleID, string, error)                             {}
func (nopRMetrics) PruneDuration(cell.FullModuleID, string, time.Duration)                  {}

var errScripted = errors.New("scripted failure")

// scriptOps: the target system. Update/Delete fail when the (symbolic) script says so.
type scriptOps struct {
	h        *c14harness
	target   map[byte]uint64
	lastOp   map[byte]string // "update" / "delete": last successful op per key
	attempts int
}

func (s *scriptOps) Update(ctx context.Context, txn statedb.ReadTxn, rev statedb.Revision, obj *robj) error {
	h := s.h
	s.attempts++
	h.onAttempt(obj.id, false, obj, rev)
	h.inAttempt, h.attemptStale = int(obj.id), false
	if h.inject != nil {
		f := h.inject
		h.inject = nil
		f()
	}
	h.inAttempt = -1
	if h.nextFail() {
		h.onFailure(obj.id)
		return errScripted
	}
	s.target[obj.id] = obj.val
	s.lastOp[obj.id] = "update"
	h.onSuccess(obj.id)
	return nil
}

func (s *scriptOps) Delete(ctx context.Context, txn statedb.ReadTxn, rev statedb.Revision, obj *robj) error {
	h := s.h
	s.attempts++
	h.onAttempt(obj.id, true, obj, rev)
	h.attemptStale = false
	if h.nextFail() {
		h.onFailure(obj.id)
		return errScripted
	}
	delete(s.target, obj.id)
	s.lastOp[obj.id] = "delete"
	h.onSuccess(obj.id)
	return nil
}

func (s *scriptOps) Prune(ctx context.Context, txn statedb.ReadTxn, objects iter.Seq2[*robj, statedb.Revision]) error {
	return nil
}

type batchOps struct{ s *scriptOps }

func (b batchOps) UpdateBatch(ctx context.Context, txn statedb.ReadTxn, batch []BatchEntry[*robj]) {
	for i := range batch {
		batch[i].Result = b.s.Update(ctx, txn, batch[i].Revision, batch[i].Object)
	}
}
func (b batchOps) DeleteBatch(ctx context.Context, txn statedb.ReadTxn, batch []BatchEntry[*robj]) {
	for i := range batch {
		batch[i].Result = b.s.Delete(ctx, txn, batch[i].Revision, batch[i].Object)
	}
}

type keyModel struct {
	present bool
	val     uint64
	// retry pacing bookkeeping
	failedAt            int64 // virtual time of the last failure (-1 none)
	lastWait            int64
	failing             bool // a failed operation awaits retry
	changedSinceFailure bool
	failures            int // consecutive failures since the last change/success
	version, synced     int // user-write counter / version last reconciled successfully
	attempted           int // version for which Update/Delete was last attempted
}

type c14harness struct {
	db              *statedb.DB
	table           statedb.RWTable[*robj]
	ops             *scriptOps
	keys            map[byte]*keyModel
	F               int // remaining symbolic failure decisions
	quiesce         bool
	inject          func()
	minB, maxB      int64
	inAttempt       int
	attemptStale    bool
	maxAttemptedRev statedb.Revision
	attemptedRevs   map[statedb.Revision]bool
}

func (h *c14harness) nextFail() bool {
	if h.quiesce || h.F <= 0 {
		return false
	}
	h.F--
	return vnd.Bool("fail")
}

func (h *c14harness) km(id byte) *keyModel {
	k := h.keys[id]
	if k == nil {
		k = &keyModel{failedAt: -1}
		h.keys[id] = k
	}
	return k
}

func (h *c14harness) onAttempt(id byte, del bool, obj *robj, rev statedb.Revision) {
	k := h.km(id)
	k.attempted = k.version
	now := vnd.Now()
	if rev > h.maxAttemptedRev {
		h.maxAttemptedRev = rev
	}
	if k.failing && !k.changedSinceFailure {
		// this is a retry: never sooner than the minimum backoff after the failure,
		// waits do not shrink over consecutive failures and are capped by the maximum
		wait := now - k.failedAt
		pa(wait >= h.minB, "C16.retry-sooner-than-min-backoff")
		vnd.Cover("C16.retry-attempted")
	} else if !del {
		// not a retry: only pending/refreshing objects are updated
		pa(obj.status.IsPendingOrRefreshing(), "C15.update-of-non-pending-object")
	}
}

func (h *c14harness) onFailure(id byte) {
	k := h.km(id)
	k.failedAt = vnd.Now()
	// a failure for a version that was replaced or deleted while the operation
	// ran is dropped: the newer version is reconciled as an ordinary change
	k.failing = !h.attemptStale
	if h.attemptStale {
		k.failures = 0 // the newer version has not failed yet
	} else {
		k.failures++
	}
	h.attemptStale = false
	k.changedSinceFailure = false
	vnd.Cover("C14.failure")
}

func (h *c14harness) onSuccess(id byte) {
	k := h.km(id)
	k.failing = false
	k.failures = 0
	if !h.attemptStale {
		k.synced = k.version
	}
}

// user writes ------------------------------------------------------------

func (h *c14harness) userUpsert(id byte, val uint64) {
	w := h.db.WriteTxn(h.table)
	n := &robj{id: id, val: val, status: StatusPending(), status2: StatusPending(), set: NewStatusSet()}
	if old, _, ok := h.table.Get(w, robjIndex.Query(id)); ok && vnd.Param("STATUSSET", 0) == 1 {
		// the documented way to update an object that carries a StatusSet
		n.set = old.set.Pending()
	}
	h.table.Insert(w, n)
	w.Commit()
	k := h.km(id)
	if h.inAttempt == int(id) {
		h.attemptStale = true
	}
	k.present, k.val = true, val
	k.version++
	k.changedSinceFailure = true
	k.failures = 0
}

func (h *c14harness) userDelete(id byte) {
	w := h.db.WriteTxn(h.table)
	_, had, _ := h.table.Delete(w, &robj{id: id})
	w.Commit()
	k := h.km(id)
	if had {
		if h.inAttempt == int(id) {
			h.attemptStale = true
		}
		k.version++
		k.changedSinceFailure = true
		k.failures = 0
	}
	k.present = false
}

// statusOnlyWrite: what a second reconciler's status commit looks like.
func (h *c14harness) statusOnlyWrite(id byte) {
	w := h.db.WriteTxn(h.table)
	if o, _, ok := h.table.Get(w, robjIndex.Query(id)); ok {
		c := *o
		c.status2 = StatusDone()
		h.table.Insert(w, &c)
	}
	w.Commit()
}

func (h *c14harness) symbolicUserWrite(tag string, nkeys int) {
	id := byte('a' + vnd.IntRange(tag+".key", 0, nkeys-1))
	switch vnd.IntRange(tag+".op", 0, 3) {
	case 0:
		h.userUpsert(id, vnd.Uint64(tag+".val"))
	case 1:
		h.userDelete(id)
	case 2: // delete + re-insert
		h.userDelete(id)
		h.userUpsert(id, vnd.Uint64(tag+".val"))
	case 3:
		if vnd.Param("TWO", 0) == 0 {
			vnd.Assume(false)
		}
		h.statusOnlyWrite(id)
		vnd.Cover("C15.status-only-write")
	}
}

// checkTableAgainstModel: reconciler writes change nothing but the status;
// deleted objects are not re-created; Done/Error only for the reconciled version.
func (h *c14harness) checkTable(what string) {
	rt := h.db.ReadTxn()
	n := 0
	for id, k := range h.keys {
		o, _, ok := h.table.Get(rt, robjIndex.Query(id))
		pa(ok == k.present, "C15."+what+".presence")
		if !ok {
			continue
		}
		n++
		pa(o.val == k.val, "C15."+what+".non-status-fields-clobbered")
		if o.status.Kind == StatusKindDone {
			tv, inTarget := h.ops.target[id]
			pa(vnd.And(inTarget, tv == o.val), "C15."+what+".done-for-a-version-not-reconciled")
		}
	}
	pa(h.table.NumObjects(rt) == n, "C15."+what+".extra-objects")
}

// VerifC14Rounds drives the real incremental reconciler round by round under
// virtual time against scripted operations.
func VerifC14Rounds() {
	R := vnd.Param("R", 2)
	KEYS := vnd.Param("KEYS", 2)
	W := vnd.Param("W", 2)
	roundSize := vnd.Param("ROUNDSIZE", 1000)
	batch := vnd.Param("BATCH", 0) == 1
	const unit = int64(time.Millisecond)
	minB, maxB := int64(vnd.Param("MINB", 1))*unit, int64(vnd.Param("MAXB", 4))*unit

	db := statedb.New(statedb.WithMetrics(&statedb.NopMetrics{}))
	table, err := statedb.NewTable[*robj](db, "robjs", robjIndex)
	if err != nil {
		panic(err)
	}
	h := &c14harness{inAttempt: -1, db: db, table: table, keys: map[byte]*keyModel{}, F: vnd.Param("F", 2), minB: minB, maxB: maxB, attemptedRevs: map[statedb.Revision]bool{}}
	ops := &scriptOps{h: h, target: map[byte]uint64{}, lastOp: map[byte]string{}}
	h.ops = ops
	cfg := config[*robj]{
		Table: table,
		GetObjectStatus: func(o *robj) Status {
			if vnd.Param("STATUSSET", 0) == 1 {
				return o.set.Get("verif")
			}
			return o.status
		},
		SetObjectStatus: func(o *robj, s Status) *robj {
			if vnd.Param("STATUSSET", 0) == 1 {
				o.set = o.set.Set("verif", s)
				o.status = s
				return o
			}
			o.status = s
			return o
		},
		CloneObject: func(o *robj) *robj { c := *o; return &c },
		Operations:  ops,
		options: options{
			Metrics:                 nopRMetrics{},
			RetryBackoffMinDuration: time.Duration(minB),
			RetryBackoffMaxDuration: time.Duration(maxB),
			IncrementalRoundSize:    roundSize,
		},
	}
	if batch {
		cfg.BatchOperations = batchOps{ops}
	}
	idx := table.PrimaryIndexer()
	rt := newRetries(cfg.RetryBackoffMinDuration, cfg.RetryBackoffMaxDuration, func(o any) index.Key { return idx.ObjectToKey(o.(*robj)) })
	progress := newProgressTracker()
	incr := incremental[*robj]{
		name: "verif", metrics: cfg.Metrics, config: &cfg, retries: rt, primaryIndexer: idx, db: db, table: table,
		results: make(map[*robj]opResult),
	}
	w := db.WriteTxn(table)
	it, err := table.Changes(w)
	w.Commit()
	if err != nil {
		panic(err)
	}
	ctx := context.Background()
	round := func() {
		txn := db.ReadTxn()
		changes, _ := it.Next(txn)
		_, lastRev, lw := incr.run(ctx, txn, changes)
		progress.update(lastRev, lw)
		// retry low-watermark: zero exactly when no failed object awaits retry
		awaiting := false
		for _, k := range h.keys {
			if k.failing && !k.changedSinceFailure {
				awaiting = true
			}
		}
		// (never zero while a failed object awaits retry; non-zero only while
		// some object is not yet successfully reconciled - a stale failed
		// attempt may keep it non-zero until the newer version is processed)
		unsettled := false
		for _, k := range h.keys {
			if k.failing || k.version != k.synced {
				unsettled = true
			}
		}
		// the backoff starts over after the object changes or succeeds: a queued
		// retry carries the number of consecutive failures of the current version
		for id, k := range h.keys {
			if k.failing && !k.changedSinceFailure {
				item := rt.items[string(rt.objectToKey(&robj{id: id}))]
				pa(item != nil, "C16.failed-object-has-no-retry")
				if item != nil {
					pa(item.numRetries == k.failures, "C16.backoff-not-restarted-after-change")
				}
			}
		}
		pa(!awaiting || lw != 0, "C16.low-watermark-zero-while-failed-object-awaits-retry")
		pa(lw == 0 || unsettled, "C16.low-watermark-nonzero-with-everything-reconciled")
		// WaitUntilReconciled(rev) returns without error only when every change up to rev was attempted
		cctx, cancel := context.WithCancel(ctx)
		cancel()
		tableRev := table.Revision(txn)
		_, _, werr := progress.wait(cctx, tableRev)
		if werr == nil {
			pa(h.maxAttemptedRev >= 0 && lastRev >= 0, "C16.wait")
		}
		// WaitUntilReconciled(rev) == nil only after every change up to rev has been
		// attempted: the reported revision must not be at or beyond a pending
		// object whose latest version was never passed to Update
		cur, _, _ := progress.wait(cctx, 0)
		fresh := db.ReadTxn() // (the round's own snapshot predates writes made while an operation was in flight)
		for id, k := range h.keys {
			if o, orev, ok := table.Get(fresh, robjIndex.Query(id)); ok && k.present && k.attempted != k.version {
				_ = o
				pa(orev > cur, "C16.progress-ahead-of-unattempted-change")
			}
		}
		// what WaitUntilReconciled reports is the low-watermark of this round
		_, lwReported, _ := progress.wait(cctx, 0)
		pa(lwReported == lw, "C16.wait-reports-stale-low-watermark")
	}

	writes := W
	for r := 0; r < R; r++ {
		// user writes before the round
		nw := vnd.IntRange("nwrites", 0, min(writes, 2))
		for i := 0; i < nw; i++ {
			h.symbolicUserWrite("w", KEYS)
			writes--
		}
		// optionally a write lands while an Update is in flight
		if writes > 0 && vnd.Param("INJECT", 1) == 1 && vnd.Bool("inject") {
			writes--
			h.inject = func() { h.symbolicUserWrite("inj", KEYS) }
			vnd.Cover("C15.inject-armed")
		}
		round()
		h.inject = nil
		h.checkTable("round")
		// time passes: nothing, the minimum backoff, or the maximum
		switch vnd.IntRange("advance", 0, 2) {
		case 1:
			vnd.Advance(minB)
		case 2:
			vnd.Advance(2 * maxB)
		}
		vnd.Settle()
	}
	// failures stop, the table stops changing: convergence within a bounded number of retry periods
	h.quiesce = true
	for k := 0; k < vnd.Param("K", 3); k++ {
		vnd.Advance(2 * maxB)
		vnd.Settle()
		round()
	}
	h.checkTable("final")
	rtx := db.ReadTxn()
	for id, k := range h.keys {
		tv, inTarget := ops.target[id]
		if k.present {
			pa(vnd.And(inTarget, tv == k.val), "C14.target-differs-from-table")
			o, _, _ := table.Get(rtx, robjIndex.Query(id))
			if o != nil {
				pa(o.status.Kind == StatusKindDone, "C14.object-not-done")
			}
			pa(ops.lastOp[id] == "update", "C14.last-op-not-update")
		} else {
			pa(!inTarget, "C14.removed-object-still-in-target")
		}
	}
	pa(len(rt.items) == 0, "C14.retry-left-behind")
	pa(rt.LowWatermark() == 0, "C16.low-watermark-nonzero-at-rest")
	it.Close()
	vnd.Cover("C14.end")
}

func init() { verifEntries["VerifKFRetryStatusLost"] = VerifKFRetryStatusLost }

// VerifKFRetryStatusLost: regression probe (runs natively too): an object fails
// once, another reconciler's status-only write lands, the retry succeeds: the
// object must end up Done.
func VerifKFRetryStatusLost() {
	db := statedb.New(statedb.WithMetrics(&statedb.NopMetrics{}))
	table, _ := statedb.NewTable[*robj](db, "robjs", robjIndex)
	h := &c14harness{inAttempt: -1, db: db, table: table, keys: map[byte]*keyModel{}, attemptedRevs: map[statedb.Revision]bool{}}
	ops := &scriptOps{h: h, target: map[byte]uint64{}, lastOp: map[byte]string{}}
	h.ops = ops
	failOnce := true
	cfg := config[*robj]{
		Table:           table,
		GetObjectStatus: func(o *robj) Status { return o.status },
		SetObjectStatus: func(o *robj, s Status) *robj { o.status = s; return o },
		CloneObject:     func(o *robj) *robj { c := *o; return &c },
		Operations:      failFirst{ops, &failOnce},
		options:         options{Metrics: nopRMetrics{}, RetryBackoffMinDuration: time.Millisecond, RetryBackoffMaxDuration: 4 * time.Millisecond, IncrementalRoundSize: 1000},
	}
	idx := table.PrimaryIndexer()
	rt := newRetries(cfg.RetryBackoffMinDuration, cfg.RetryBackoffMaxDuration, func(o any) index.Key { return idx.ObjectToKey(o.(*robj)) })
	incr := incremental[*robj]{name: "kf", metrics: cfg.Metrics, config: &cfg, retries: rt, primaryIndexer: idx, db: db, table: table, results: make(map[*robj]opResult)}
	w := db.WriteTxn(table)
	it, _ := table.Changes(w)
	w.Commit()
	round := func() {
		txn := db.ReadTxn()
		changes, _ := it.Next(txn)
		incr.run(context.Background(), txn, changes)
	}
	h.userUpsert('a', 7)
	round() // fails
	h.statusOnlyWrite('a')
	vnd.Advance(int64(20 * time.Millisecond))
	round() // the retry succeeds
	o, _, ok := table.Get(db.ReadTxn(), robjIndex.Query('a'))
	pa(ok && o.status.Kind == StatusKindDone, "KF-retry-status-lost")
	it.Close()
}

type failFirst struct {
	*scriptOps
	fail *bool
}

func (f failFirst) Update(ctx context.Context, txn statedb.ReadTxn, rev statedb.Revision, obj *robj) error {
	if *f.fail {
		*f.fail = false
		return errScripted
	}
	f.target[obj.id] = obj.val
	return nil
}

func init() { verifEntries["VerifC15Prune"] = VerifC15Prune }

type nopHealth struct{}

func (nopHealth) OK(string)                   {}
func (nopHealth) Stopped(string)              {}
func (nopHealth) Degraded(string, error)      {}
func (nopHealth) NewScope(string) cell.Health { return nopHealth{} }
func (nopHealth) Close()                      {}

type pruneOps struct {
	*scriptOps
	table   statedb.RWTable[*robj]
	calls   int
	badInit bool
	badSet  bool
	wantLen func() int
}

func (p *pruneOps) Prune(ctx context.Context, txn statedb.ReadTxn, objects iter.Seq2[*robj, statedb.Revision]) error {
	p.calls++
	if init, _ := p.table.Initialized(txn); !init {
		p.badInit = true
	}
	n := 0
	for range objects {
		n++
	}
	if n != p.table.NumObjects(txn) {
		p.badSet = true
	}
	return nil
}

// VerifC15Prune: the real reconcileLoop runs as a VM thread under virtual time
// with a short prune interval; the table has a pending initializer for a
// symbolic number of prune periods, objects are inserted meanwhile, an explicit
// Prune() may be requested before initialization. Prune must only ever be
// called with a snapshot in which the table is initialized, and with the
// complete contents of that snapshot; and it must be called after initialization.
func VerifC15Prune() {
	const unit = int64(time.Millisecond)
	db := statedb.New(statedb.WithMetrics(&statedb.NopMetrics{}))
	table, err := statedb.NewTable[*robj](db, "robjs", robjIndex)
	if err != nil {
		panic(err)
	}
	h := &c14harness{inAttempt: -1, db: db, table: table, keys: map[byte]*keyModel{}, attemptedRevs: map[statedb.Revision]bool{}, quiesce: true}
	sops := &scriptOps{h: h, target: map[byte]uint64{}, lastOp: map[byte]string{}}
	h.ops = sops
	ops := &pruneOps{scriptOps: sops, table: table}
	w := db.WriteTxn(table)
	markInit := table.RegisterInitializer(w, "verif")
	w.Commit()
	idx := table.PrimaryIndexer()
	r := &reconciler[*robj]{
		Params: Params{DB: db},
		config: config[*robj]{
			Table:           table,
			GetObjectStatus: func(o *robj) Status { return o.status },
			SetObjectStatus: func(o *robj, s Status) *robj { o.status = s; return o },
			CloneObject:     func(o *robj) *robj { c := *o; return &c },
			Operations:      ops,
			options: options{
				Metrics:                 nopRMetrics{},
				RetryBackoffMinDuration: time.Duration(unit),
				RetryBackoffMaxDuration: time.Duration(4 * unit),
				IncrementalRoundSize:    1000,
				PruneInterval:           time.Duration(10 * unit),
			},
		},
		retries:              newRetries(time.Duration(unit), time.Duration(4*unit), func(o any) index.Key { return idx.ObjectToKey(o.(*robj)) }),
		externalPruneTrigger: make(chan struct{}, 1),
		primaryIndexer:       idx,
		progress:             newProgressTracker(),
	}
	ctx, cancel := context.WithCancel(context.Background())
	done := make(chan struct{})
	vnd.Go(func() {
		defer close(done)
		r.reconcileLoop(ctx, nopHealth{})
	})
	h.userUpsert('a', 1)
	if vnd.Bool("explicit-prune-before-init") {
		r.Prune()
	}
	// the table stays uninitialized for 0..3 prune periods
	periods := vnd.IntRange("periods", 0, 3)
	for i := 0; i < periods; i++ {
		vnd.Sleep(10 * unit)
		if i == 0 {
			h.userUpsert('b', 2)
		}
	}
	vnd.Settle()
	vnd.Assert(ops.calls == 0, "C15.prune-before-initialized")
	w = db.WriteTxn(table)
	markInit(w)
	w.Commit()
	vnd.Sleep(25 * unit)
	vnd.Settle()
	vnd.Assert(!ops.badInit, "C15.prune-with-uninitialized-snapshot")
	vnd.Assert(!ops.badSet, "C15.prune-with-incomplete-contents")
	vnd.Assert(ops.calls > 0, "C15.prune-never-called-after-initialization")
	cancel()
	<-done
	vnd.Cover("C15.prune.end")
}
