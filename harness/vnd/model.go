package vnd

import "bytes"

// Map is the fork-free oracle for every map-like property: an association list
// with one entry per write ever made (concrete length), whose Present flags and
// values may be symbolic. All operations build terms only (no branching on
// symbolic data), so the implementation under test is the only source of path
// forks.
type Entry struct {
	Key     []byte
	Val     uint64
	Present bool
}

type Map struct{ E []Entry }

func (m *Map) Put(k []byte, v uint64) (old uint64, had bool) {
	for i := range m.E {
		e := &m.E[i]
		hit := And(e.Present, bytes.Equal(k, e.Key))
		old = IteU64(hit, e.Val, old)
		had = Or(had, hit)
		e.Present = And(e.Present, Not(hit))
	}
	m.E = append(m.E, Entry{Key: k, Val: v, Present: true})
	return
}

// PutIf is Put guarded by a (possibly symbolic) condition.
func (m *Map) PutIf(c bool, k []byte, v uint64) (old uint64, had bool) {
	for i := range m.E {
		e := &m.E[i]
		hit := And(e.Present, bytes.Equal(k, e.Key))
		old = IteU64(hit, e.Val, old)
		had = Or(had, hit)
		e.Present = And(e.Present, Not(And(c, hit)))
	}
	m.E = append(m.E, Entry{Key: k, Val: v, Present: c})
	return
}

func (m *Map) Del(k []byte) (old uint64, had bool) { return m.DelIf(true, k) }

func (m *Map) DelIf(c bool, k []byte) (old uint64, had bool) {
	for i := range m.E {
		e := &m.E[i]
		hit := And(e.Present, bytes.Equal(k, e.Key))
		old = IteU64(hit, e.Val, old)
		had = Or(had, hit)
		e.Present = And(e.Present, Not(And(c, hit)))
	}
	return
}

func (m *Map) Get(k []byte) (val uint64, ok bool) {
	for i := range m.E {
		e := &m.E[i]
		hit := And(e.Present, bytes.Equal(k, e.Key))
		val = IteU64(hit, e.Val, val)
		ok = Or(ok, hit)
	}
	return
}

func (m *Map) Len() int {
	n := 0
	for i := range m.E {
		n += IteInt(m.E[i].Present, 1, 0)
	}
	return n
}

func (m *Map) Snapshot() *Map {
	c := &Map{E: make([]Entry, len(m.E))}
	copy(c.E, m.E)
	return c
}

// Count returns the number of present entries whose key satisfies sel.
func (m *Map) Count(sel func(key []byte) bool) int {
	n := 0
	for i := range m.E {
		n += IteInt(And(m.E[i].Present, sel(m.E[i].Key)), 1, 0)
	}
	return n
}

// Any reports whether some present entry satisfies sel.
func (m *Map) Any(sel func(key []byte) bool) bool {
	r := false
	for i := range m.E {
		r = Or(r, And(m.E[i].Present, sel(m.E[i].Key)))
	}
	return r
}

// CheckOrdered asserts that (keys, vals) is exactly the set of present entries
// selected by sel, in strictly ascending key order.
func (m *Map) CheckOrdered(keys [][]byte, vals []uint64, sel func(key []byte) bool, id string) {
	for j := 0; j+1 < len(keys); j++ {
		Assert(bytes.Compare(keys[j], keys[j+1]) < 0, id+".ascending")
	}
	for j := range keys {
		found := false
		for i := range m.E {
			e := &m.E[i]
			found = Or(found, And(And(e.Present, bytes.Equal(keys[j], e.Key)), e.Val == vals[j]))
		}
		Assert(And(found, sel(keys[j])), id+".member")
	}
	Assert(len(keys) == m.Count(sel), id+".count")
}

func SelAll(key []byte) bool { return true }
func SelPrefix(p []byte) func([]byte) bool {
	return func(k []byte) bool { return bytes.HasPrefix(k, p) }
}
func SelLowerBound(q []byte) func([]byte) bool {
	return func(k []byte) bool { return bytes.Compare(k, q) >= 0 }
}

// IsClosed reports whether ch is closed (non-blocking).
func IsClosed(ch <-chan struct{}) bool {
	if ch == nil {
		return false
	}
	select {
	case <-ch:
		return true
	default:
		return false
	}
}

// CheckOrderedLess is CheckOrdered with a caller-supplied strict order.
func (m *Map) CheckOrderedLess(keys [][]byte, vals []uint64, sel func(key []byte) bool, less func(a, b []byte) bool, id string) {
	for j := 0; j+1 < len(keys); j++ {
		Assert(less(keys[j], keys[j+1]), id+".ascending")
	}
	for j := range keys {
		found := false
		for i := range m.E {
			e := &m.E[i]
			found = Or(found, And(And(e.Present, bytes.Equal(keys[j], e.Key)), e.Val == vals[j]))
		}
		Assert(And(found, sel(keys[j])), id+".member")
	}
	Assert(len(keys) == m.Count(sel), id+".count")
}

// SubsetKeys: every present key of a is a present key of b (optionally with equal values).
func SubsetKeys(a, b *Map, withValues bool) bool {
	r := true
	for i := range a.E {
		ea := &a.E[i]
		found := false
		for j := range b.E {
			eb := &b.E[j]
			hit := And(eb.Present, bytes.Equal(ea.Key, eb.Key))
			if withValues {
				hit = And(hit, ea.Val == eb.Val)
			}
			found = Or(found, hit)
		}
		r = And(r, Implies(ea.Present, found))
	}
	return r
}

func EqualKeys(a, b *Map) bool { return And(SubsetKeys(a, b, false), SubsetKeys(b, a, false)) }
func EqualMaps(a, b *Map) bool { return And(SubsetKeys(a, b, true), SubsetKeys(b, a, true)) }
