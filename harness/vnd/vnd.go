// Package vnd is the harness vocabulary ("verification nondeterminism").
//
// It exists only in the overlay (/repo/internal/vnd/vnd.go is never written to
// disk). Inside the symbolic VM every function here is an intrinsic: inputs are
// symbolic variables, Assert is a solver query. Compiled natively the same
// functions read a replay tape (or a seeded random stream) so that a solver
// counterexample can be replayed against the real build.
package vnd

import (
	"encoding/json"
	"fmt"
	"os"
	"strconv"
	"strings"
	"testing"
	"time"
)

type tapeEntry struct {
	Tag  string `json:"tag"`
	Kind string `json:"kind"`
	Val  uint64 `json:"val"`
}

type replayFile struct {
	Entry  string         `json:"entry"`
	Tape   []tapeEntry    `json:"tape"`
	Params map[string]int `json:"params"`
}

var (
	tape    []tapeEntry
	tapePos int
	useRng  bool
	rng     uint64
	params  = map[string]int{}
	digest  uint64
	covers  = map[string]bool{}
	open    = map[string]bool{}
)

type assumeFailed struct{}
type assertFailed struct{ id string }

func nextRand() uint64 {
	rng += 0x9e3779b97f4a7c15
	z := rng
	z = (z ^ (z >> 30)) * 0xbf58476d1ce4e5b9
	z = (z ^ (z >> 27)) * 0x94d049bb133111eb
	return z ^ (z >> 31)
}

func input(tag, kind string, lo, hi uint64) uint64 {
	if useRng {
		r := nextRand()
		switch kind {
		case "byte":
			switch r % 8 {
			case 0:
				return 0
			case 1:
				return 1
			case 2:
				return 0xff
			default:
				return (r >> 8) & 3
			}
		case "bool":
			return r & 1
		case "u64", "u16", "u32":
			switch r % 4 {
			case 0:
				return (r >> 8) % 8
			default:
				return (r >> 8) % 4
			}
		default:
			return lo + (r>>8)%(hi-lo+1)
		}
	}
	if tapePos >= len(tape) {
		panic(fmt.Sprintf("vnd: tape exhausted at %s", tag))
	}
	e := tape[tapePos]
	tapePos++
	// scheduler / select / map-order records are informational natively
	for e.Kind == "choice" {
		if tapePos >= len(tape) {
			panic(fmt.Sprintf("vnd: tape exhausted at %s", tag))
		}
		e = tape[tapePos]
		tapePos++
	}
	return e.Val
}

func Byte(tag string) byte     { return byte(input(tag, "byte", 0, 0)) }
func Bool(tag string) bool     { return input(tag, "bool", 0, 0) != 0 }
func Uint64(tag string) uint64 { return input(tag, "u64", 0, 0) }
func Uint16(tag string) uint16 { return uint16(input(tag, "u16", 0, 0)) }
func Uint32(tag string) uint32 { return uint32(input(tag, "u32", 0, 0)) }

// IntRange returns a value in [lo,hi]; in the VM this is an explicit fork.
func IntRange(tag string, lo, hi int) int {
	if hi < lo {
		panic(assumeFailed{})
	}
	return int(input(tag, "int", uint64(lo), uint64(hi)))
}

// BytesN returns n symbolic bytes.
func BytesN(tag string, n int) []byte {
	out := make([]byte, n)
	for i := range out {
		out[i] = byte(input(tag+"["+strconv.Itoa(i)+"]", "byte", 0, 0))
	}
	return out
}

// Bytes returns a byte slice of symbolic length 0..maxLen with symbolic bytes
// (length 0 gives a non-nil empty slice).
func Bytes(tag string, maxLen int) []byte {
	n := IntRange(tag+".len", 0, maxLen)
	return BytesN(tag, n)
}

func String(tag string, maxLen int) string { return string(Bytes(tag, maxLen)) }

func Assume(c bool) {
	if !c {
		panic(assumeFailed{})
	}
}

func Assert(c bool, id string) {
	if !c {
		panic(assertFailed{id})
	}
}

func Cover(id string) { covers[id] = true }

// Known reports whether finding id is listed as open and c holds. Harnesses use
// it to exclude exactly the listed input class of a known finding.
func Known(id string, c bool) bool { return open[id] && c }
func KnownOpen(id string) bool     { return open[id] }

func And(a, b bool) bool     { return a && b }
func Or(a, b bool) bool      { return a || b }
func Implies(a, b bool) bool { return !a || b }
func Iff(a, b bool) bool     { return a == b }
func Not(a bool) bool        { return !a }
func IteInt(c bool, a, b int) int {
	if c {
		return a
	}
	return b
}
func IteU64(c bool, a, b uint64) uint64 {
	if c {
		return a
	}
	return b
}
func IteBool(c bool, a, b bool) bool {
	if c {
		return a
	}
	return b
}
func IteByte(c bool, a, b byte) byte {
	if c {
		return a
	}
	return b
}

// Param is a harness size parameter set by the check (tier dependent).
func Param(name string, def int) int {
	if v, ok := params[name]; ok {
		return v
	}
	return def
}

// Symbolic is true inside the VM's symbolic mode.
func Symbolic() bool { return false }

// InVM is true when executed by the VM (symbolic or concrete mode).
func InVM() bool { return false }

func mix(v uint64) { digest ^= v + 0x9e3779b97f4a7c15 + (digest << 6) + (digest >> 2) }

func hashStr(s string) uint64 {
	h := uint64(1469598103934665603)
	for i := 0; i < len(s); i++ {
		h ^= uint64(s[i])
		h *= 1099511628211
	}
	return h
}

// Observe adds values to the observation digest compared between VM and native runs.
func Observe(tag string, vals ...uint64) {
	mix(hashStr(tag))
	for _, v := range vals {
		mix(v)
	}
}

func ObserveBytes(tag string, b []byte) {
	mix(hashStr(tag))
	mix(uint64(len(b)))
	for _, v := range b {
		mix(uint64(v))
	}
}

func Concretize(x uint64) uint64 { return x }

// ---- stage 2/3: actors, lock probes, threads, virtual time (native: best effort)

func Actor(i int) {}

// WouldBlock natively cannot be decided without blocking; replay of such
// counterexamples is done by the VM only.
func WouldBlock(f func()) bool { panic(vmOnly{"vnd.WouldBlock"}) }

type vmOnly struct{ what string }

// SetSyncObserver installs f to be called by the VM at every synchronisation
// operation (atomic store/swap, mutex lock/unlock, channel close) of the main
// thread - "another goroutine takes a snapshot here". VM-only; natively a no-op.
func SetSyncObserver(f func(point string)) {}
func ObserverCalls() int                  { return 0 }

func Go(f func())    { go f() }
func Yield()         {}
// natively time is real: virtual-time harnesses are only approximated
func Sleep(d int64)   { time.Sleep(time.Duration(d)) }
func Advance(d int64) { time.Sleep(time.Duration(d)) }
func Now() int64      { return time.Now().UnixNano() }
func Settle()        {}
func LockStats() (acquisitions, cycle, blockedHolding int) { return 0, 0, 0 }
func HeldLocks() int { return 0 }

// ---------------------------------------------------------------------

func loadParams() {
	if s := os.Getenv("VND_PARAMS"); s != "" {
		for _, kv := range strings.Split(s, ",") {
			if i := strings.IndexByte(kv, '='); i > 0 {
				n, _ := strconv.Atoi(kv[i+1:])
				params[kv[:i]] = n
			}
		}
	}
	if s := os.Getenv("VND_OPEN"); s != "" {
		for _, id := range strings.Split(s, ",") {
			open[id] = true
		}
	}
}

func runOnce(f func()) (status string) {
	digest = 0
	defer func() {
		r := recover()
		switch r := r.(type) {
		case nil:
		case assumeFailed:
			status = "assume"
		case assertFailed:
			status = "violation:" + r.id
		case vmOnly:
			status = "vm-only:" + r.what
		default:
			status = fmt.Sprintf("panic:%v", r)
		}
	}()
	f()
	return "ok"
}

// Run is called by the per-package TestVerifReplay.
func Run(t *testing.T, entries map[string]func()) {
	loadParams()
	name := os.Getenv("VND_ENTRY")
	if name == "" {
		t.Skip("VND_ENTRY not set")
	}
	if path := os.Getenv("VND_TAPE"); path != "" {
		b, err := os.ReadFile(path)
		if err != nil {
			t.Fatal(err)
		}
		var rf replayFile
		if err := json.Unmarshal(b, &rf); err != nil {
			t.Fatal(err)
		}
		for k, v := range rf.Params {
			params[k] = v
		}
		if name == "" {
			name = rf.Entry
		}
		f := entries[name]
		if f == nil {
			t.Fatalf("unknown entry %q", name)
		}
		tape, tapePos, useRng = rf.Tape, 0, false
		st := runOnce(f)
		fmt.Printf("REPLAY-STATUS %s\n", st)
		if strings.HasPrefix(st, "violation:") {
			fmt.Printf("REPLAY-VIOLATION %s\n", strings.TrimPrefix(st, "violation:"))
			t.Fail()
		} else if strings.HasPrefix(st, "panic:") {
			fmt.Printf("REPLAY-VIOLATION panic\n")
			fmt.Printf("REPLAY-PANIC %s\n", st)
			t.Fail()
		}
		return
	}
	f := entries[name]
	if f == nil {
		t.Fatalf("unknown entry %q", name)
	}
	if s := os.Getenv("VND_RAND"); s != "" {
		parts := strings.Split(s, ",")
		seed, _ := strconv.ParseUint(parts[0], 10, 64)
		n, _ := strconv.Atoi(parts[1])
		for i := 0; i < n; i++ {
			useRng, rng = true, seed+uint64(i)
			st := runOnce(f)
			if strings.HasPrefix(st, "panic:") {
				st = "panic"
			}
			fmt.Printf("DIGEST %d %s %016x\n", seed+uint64(i), st, digest)
		}
	}
}

// BytesOrNil is Bytes, but a zero-length result is nil or empty (non-nil) by
// a symbolic choice: the two are different index keys in some code paths.
func BytesOrNil(tag string, maxLen int) []byte {
	b := Bytes(tag, maxLen)
	if len(b) == 0 && Bool(tag+".nil") {
		return nil
	}
	return b
}
