package main

type CheckSpec struct {
	ID      string
	PkgDirs []string
	Quick   []HarnessRun
	Thorough []HarnessRun
}

var checks = map[string]*CheckSpec{}

func cmdCheck(args []string) int { return 2 }
