package main

import (
	"encoding/json"
	"flag"
	"fmt"
	"os"
	"path/filepath"
	"runtime"
	"sort"
	"strconv"
	"strings"
	"time"

	"symgo/vm"
)

type CheckSpec struct {
	ID       string
	PkgDir   string // harness package dir: "part", "lpm", "index", "statedb", "reconciler"
	Quick    []HarnessRun
	Thorough []HarnessRun
	Known    []KnownProbe // probes for open known findings of this property
	Outside  []string     // what lies outside the bounds (goes to evidence.assumptions)
	Stubs    []string
}

// KnownProbe: a harness entry that must still fail while finding ID is open.
type KnownProbe struct {
	ID    string
	Entry string
	Params map[string]int
}

var checks = map[string]*CheckSpec{}

func reg(c *CheckSpec) { checks[c.ID] = c }

type runEvidence struct {
	Entry        string         `json:"entry"`
	Params       map[string]int `json:"params"`
	Paths        int            `json:"paths"`
	ByStatus     map[string]int `json:"paths_by_status"`
	Decisions    int64          `json:"decisions"`
	Steps        int64          `json:"ssa_steps"`
	Assertions   int            `json:"assertion_queries_discharged"`
	AssertTriv   int            `json:"assertions_folded_true"`
	Queries      int            `json:"solver_queries"`
	SolverS      float64        `json:"solver_time_s"`
	WallS        float64        `json:"wall_s"`
	Covers       map[string]int `json:"cover_points_hit"`
	DiffRuns     int            `json:"differential_runs_vm_vs_native"`
	VacuityTwin  string         `json:"vacuity_twin"`
	Inconclusive int            `json:"inconclusive_paths"`
}

func cmdCheck(args []string) int {
	fs := flag.NewFlagSet("check", flag.ExitOnError)
	tier := fs.String("tier", "", "quick|thorough")
	workers := fs.Int("workers", runtime.NumCPU(), "")
	var id string
	if len(args) > 0 && !strings.HasPrefix(args[0], "-") {
		id = args[0]
		args = args[1:]
	}
	fs.Parse(args)
	if id == "" && fs.NArg() > 0 {
		id = fs.Arg(0)
	}
	if *tier == "" {
		*tier = os.Getenv("VERIF_TIER")
	}
	if *tier == "" {
		*tier = "quick"
	}
	seed := uint64(1)
	if s := os.Getenv("VERIF_SEED"); s != "" {
		if v, err := strconv.ParseUint(s, 10, 64); err == nil {
			seed = v
		}
	}
	spec := checks[id]
	if spec == nil {
		fmt.Fprintf(os.Stderr, "unknown check %q\n", id)
		return 2
	}
	t0 := time.Now()
	runs := spec.Quick
	if *tier == "thorough" {
		// thorough = every quick run plus the deeper runs
		runs = append(append([]HarnessRun{}, spec.Quick...), spec.Thorough...)
	}
	env, err := loadEnv([]string{spec.PkgDir})
	if err != nil {
		fmt.Fprintln(os.Stderr, "LOAD-ERROR:", err)
		writeEvidence(spec, *tier, seed, nil, nil, 0, []string{"load error: " + err.Error()}, time.Since(t0), 0, nil)
		return 2
	}
	fmt.Printf("[%s] loaded %s from %s in %v (tier %s)\n", id, spec.PkgDir, repoDir, env.LoadTime.Round(time.Millisecond), *tier)
	cross := ""
	if *tier == "thorough" {
		cross = "z3-new"
	}
	var open []string
	for k := range env.OpenKnown {
		open = append(open, k)
	}
	sort.Strings(open)

	exit := 0
	var problems []string
	var evs []runEvidence
	var samples []any
	funcs := map[string]bool{}
	violations := 0
	totalDiff := 0
	for _, run := range runs {
		run.PkgPath = pkgPathOf(spec.PkgDir)
		ev := runEvidence{Entry: run.Entry, Params: run.Params}
		// (a) translator validation: concrete differential runs VM vs native
		if run.DiffRuns > 0 && !run.NoNative {
			n, msg := differential(env, spec, run, seed, open)
			ev.DiffRuns = n
			totalDiff += n
			if msg != "" {
				fmt.Printf("ENGINE-MISMATCH %s %s: %s\n", id, run.Entry, msg)
				problems = append(problems, "engine mismatch: "+msg)
				exit = 2
			}
		}
		// (b) symbolic exploration
		timeout := 20 * time.Minute
		if *tier == "thorough" {
			timeout = 3 * time.Hour
		}
		res := explore(env, run, *workers, cross, timeout)
		printResult(res)
		for f := range res.Funcs {
			funcs[f] = true
		}
		ev.Paths, ev.ByStatus, ev.Decisions, ev.Steps = res.Paths, res.ByStatus, res.Decisions, res.Steps
		ev.Assertions, ev.AssertTriv, ev.Queries = res.Asserts, res.AssertsTriv, res.Queries
		ev.SolverS, ev.WallS, ev.Covers = res.SolverTime.Seconds(), res.Wall.Seconds(), res.Covers
		for _, s := range res.Samples {
			if len(samples) < 8 {
				samples = append(samples, map[string]any{"entry": run.Entry, "params": run.Params, "witness_inputs": compactTape(s)})
			}
		}
		// (c) violations: native replay
		for i, v := range res.Violations {
			p := writeReplay(id, spec.PkgDir, run, v, i)
			if run.NoNative {
				ok := vmReplay(env, run, v)
				if ok {
					fmt.Printf("VIOLATION property=%s replay=%s\n", id, p)
					fmt.Printf("  assertion %s: %s (replayed concretely in the VM on the real code; harness uses VM-only scheduling)\n", v.AssertID, v.Msg)
					violations++
					exit = 1
				} else {
					fmt.Printf("ENGINE-MISMATCH %s: VM replay of %s did not reproduce\n", id, p)
					problems = append(problems, "replay mismatch "+p)
					if exit == 0 {
						exit = 2
					}
				}
				continue
			}
			ok, out := nativeReplay(p)
			if !ok {
				// map-order / scheduling dependent counterexamples: retry a few times
				for k := 0; k < 4 && !ok; k++ {
					ok, out = nativeReplay(p)
				}
			}
			if ok {
				fmt.Printf("VIOLATION property=%s replay=%s\n", id, p)
				fmt.Printf("  assertion %s: %s (reproduced natively with go test)\n", v.AssertID, v.Msg)
				violations++
				exit = 1
			} else {
				fmt.Printf("ENGINE-MISMATCH %s: counterexample %s (%s) did not reproduce natively\n%s\n", id, p, v.AssertID, tail(out, 12))
				problems = append(problems, "native replay mismatch "+p)
				if exit == 0 {
					exit = 2
				}
			}
		}
		// (d) inconclusive paths
		bad := 0
		for st, n := range res.ByStatus {
			switch st {
			case "ok", "assume", "violation":
			default:
				bad += n
			}
		}
		ev.Inconclusive = bad
		if bad > 0 || res.Truncated || res.SolverErrors > 0 {
			msg := fmt.Sprintf("%s: %d inconclusive paths, truncated=%v, solver errors=%d", run.Entry, bad, res.Truncated, res.SolverErrors)
			problems = append(problems, msg)
			for _, p := range res.Problems {
				problems = append(problems, firstLines(p, 3))
			}
			if len(res.Violations) == 0 || bad > 0 {
				if exit == 0 {
					exit = 2
				}
			}
		}
		// (e) vacuity: cover points + twin
		if len(res.Violations) == 0 {
			for _, c := range run.Covers {
				if res.Covers[c] == 0 {
					fmt.Printf("VACUOUS %s %s: cover point %s not reached\n", id, run.Entry, c)
					problems = append(problems, "cover point not reached: "+c)
					if exit == 0 {
						exit = 2
					}
				}
			}
			tw := vacuityTwin(env, run)
			ev.VacuityTwin = tw
			if tw != "sat" {
				problems = append(problems, "vacuity twin of "+run.Entry+" did not come back sat: "+tw)
				if exit == 0 {
					exit = 2
				}
			}
		}
		evs = append(evs, ev)
	}
	// (f) known findings of this property
	for _, kp := range spec.Known {
		kf, ok := loadKnown()[kp.ID]
		if !ok || kf.Status != "open" {
			continue
		}
		run := HarnessRun{Entry: kp.Entry, PkgPath: pkgPathOf(spec.PkgDir), Params: kp.Params}
		res := explore(env, run, *workers, "", 10*time.Minute)
		if len(res.Violations) > 0 {
			fmt.Printf("KNOWN-FINDING: property=%s %s: %s\n", id, kp.ID, kf.What)
		} else {
			fmt.Printf("NOTE: known finding %s no longer reproduces (status=%v); consider marking it fixed\n", kp.ID, res.ByStatus)
		}
	}
	wall := time.Since(t0)
	writeEvidence(spec, *tier, seed, evs, samples, violations, problems, wall, totalDiff, funcs)
	switch exit {
	case 0:
		fmt.Printf("[%s] OK: property held on everything explored (%v)\n", id, wall.Round(time.Millisecond))
	case 2:
		fmt.Printf("[%s] INCONCLUSIVE: %s\n", id, strings.Join(problems, "; "))
	}
	return exit
}

func compactTape(t []vm.TapeEntry) []string {
	var out []string
	for _, e := range t {
		out = append(out, fmt.Sprintf("%s=%d", e.Tag, e.Val))
	}
	if len(out) > 60 {
		out = append(out[:60], "...")
	}
	return out
}

// differential runs the harness on n seeded random concrete tapes in the VM
// and natively and compares status + observation digest.
func differential(env *vm.Env, spec *CheckSpec, run HarnessRun, seed uint64, open []string) (int, string) {
	n := run.DiffRuns
	native, out, err := nativeDigests(spec.PkgDir, run.Entry, run.Params, seed, n, open)
	if err != nil || len(native) != n {
		return 0, fmt.Sprintf("native differential run failed (%d/%d digests): %v\n%s", len(native), n, err, tail(out, 15))
	}
	env.Params = run.Params
	wk, err := env.NewWorker("z3", 20000, "")
	if err != nil {
		return 0, err.Error()
	}
	defer wk.Close()
	for i := 0; i < n; i++ {
		s := seed + uint64(i)
		o := wk.Run(vm.RunOpts{Entry: run.PkgPath + "." + run.Entry, Concrete: true, UseRng: true, Seed: s, Budget: run.Budget})
		st := o.Status
		if st == "violation" && o.Violation != nil {
			if o.Violation.AssertID == "panic" {
				st = "panic"
			} else {
				st = "violation:" + o.Violation.AssertID
			}
		}
		got := fmt.Sprintf("%s %016x", st, o.Observed)
		if got != native[s] {
			return i, fmt.Sprintf("seed %d: VM %q vs native %q (%s)", s, got, native[s], firstLines(o.Msg, 3))
		}
	}
	return n, ""
}

// vacuityTwin re-runs the first path of the harness with a final assert(false):
// it must come back satisfiable (the end of the harness is reachable under a
// satisfiable path condition).
func vacuityTwin(env *vm.Env, run HarnessRun) string {
	env.Params = run.Params
	wk, err := env.NewWorker("z3", 20000, "")
	if err != nil {
		return err.Error()
	}
	defer wk.Close()
	// follow first alternatives until a path ends ok
	var stack [][]vm.Decision
	stack = append(stack, nil)
	for tries := 0; tries < 200 && len(stack) > 0; tries++ {
		p := stack[len(stack)-1]
		stack = stack[:len(stack)-1]
		o := wk.Run(vm.RunOpts{Entry: run.PkgPath + "." + run.Entry, Prefix: p, Budget: run.Budget, FailAtEnd: true, Preempt: run.Preempt, SymMapOrder: run.MapOrder, DeadlockViolation: run.Deadlock, PreemptBudget: run.Budget2})
		if o.Status == "violation" && o.Violation != nil && o.Violation.AssertID == "vacuity-twin" {
			return "sat"
		}
		stack = append(stack, o.NewAlts...)
	}
	return "not-reached"
}

// vmReplay re-executes the harness concretely in the VM with the tape.
func vmReplay(env *vm.Env, run HarnessRun, v *vm.Violation) bool {
	env.Params = run.Params
	wk, err := env.NewWorker("z3", 20000, "")
	if err != nil {
		return false
	}
	defer wk.Close()
	o := wk.Run(vm.RunOpts{Entry: run.PkgPath + "." + run.Entry, Concrete: true, Tape: v.Tape, Budget: run.Budget, Preempt: run.Preempt, SymMapOrder: run.MapOrder, DeadlockViolation: run.Deadlock, PreemptBudget: run.Budget2, ReplayChoices: true})
	return o.Status == "violation" && o.Violation != nil && o.Violation.AssertID == v.AssertID
}

func writeEvidence(spec *CheckSpec, tier string, seed uint64, evs []runEvidence, samples []any, violations int, problems []string, wall time.Duration, diff int, funcs map[string]bool) {
	paths, asserts, triv, queries := 0, 0, 0, 0
	solverS := 0.0
	var decisions int64
	for _, e := range evs {
		paths += e.Paths
		asserts += e.Assertions
		triv += e.AssertTriv
		queries += e.Queries
		solverS += e.SolverS
		decisions += e.Decisions
	}
	var fl []string
	for f := range funcs {
		if strings.Contains(f, vm.ModulePath) && !strings.Contains(f, "/internal/vnd") && !strings.Contains(f, "Verif") {
			fl = append(fl, strings.ReplaceAll(f, vm.ModulePath, "statedb"))
		}
	}
	sort.Strings(fl)
	if len(samples) == 0 {
		samples = []any{"no path completed"}
	}
	assumptions := []string{
		"bounds: see coverage.runs[].params (L = max key length in bytes, every byte value 0..255 symbolic; N = operations; see DESIGN.md section 4)",
		"go/packages + go/ssa (x/tools v0.50.0) lower the current /repo tree faithfully; symgo VM executes SSA with Go semantics (validated per run by VM-vs-native differential runs and by native replay of every counterexample)",
		"z3 4.8.12 answers are correct (thorough tier: every assertion query cross-checked with z3 5.1)",
		"intrinsics/stubs: bytes/strings comparison primitives as terms; sync.Mutex/atomic/Pool/WaitGroup/Map modelled; virtual time; fmt mini-formatter; os.Getenv=\"\"; runtime.SetFinalizer no-op; package init calls into hive/expvar return zero values",
	}
	assumptions = append(assumptions, spec.Outside...)
	assumptions = append(assumptions, spec.Stubs...)
	ev := map[string]any{
		"property_id": spec.ID,
		"tier":        tier,
		"seed":        seed,
		"level":       "other",
		"coverage": map[string]any{
			"explanation": "bounded symbolic execution of the real code (go/ssa of /repo's current tree) with SMT: every feasible path within the stated bounds was explored (path partition of the input space), each assertion discharged as an unsat query PC && !assertion, or reported with a natively replayed counterexample",
			"evaluations":         paths,
			"distinct_nontrivial": paths,
			"rule":                "one evaluation = one explored path = one equivalence class of inputs (distinct decision sequence); all paths are distinct by construction; a path is non-trivial because it ends in the harness' assertions or an assume",
			"samples":             samples,
			"obligations":         asserts + triv,
			"discharged":          asserts + triv - violations,
			"assertion_queries_unsat": asserts,
			"assertions_folded_true_by_term_simplification": triv,
			"checker_cmd":         fmt.Sprintf("./bin/verif check %s --tier %s", spec.ID, tier),
			"trusted_base":        []string{"go/ssa (x/tools v0.50.0)", "symgo VM + intrinsics (/verif/engine)", "z3 4.8.12", "harness oracles (/verif/harness)"},
			"traces_validated_against_impl": diff,
			"runs":                evs,
			"paths":               paths,
			"decisions":           decisions,
			"solver_queries":      queries,
			"solver_time_s":       solverS,
			"functions_executed":  fl,
			"problems":            problems,
			"exhaustive":          len(problems) == 0,
		},
		"assumptions": assumptions,
		"wall_s":      wall.Seconds(),
		"violations":  violations,
	}
	evDir := filepath.Join(verifDir, "evidence")
	if d := os.Getenv("VERIF_EVIDENCE_DIR"); d != "" {
		evDir = d // e.g. to keep thorough-tier records next to the quick-tier evidence
	}
	os.MkdirAll(evDir, 0o755)
	b, _ := json.MarshalIndent(ev, "", " ")
	os.WriteFile(filepath.Join(evDir, spec.ID+".json"), b, 0o644)
}

func init() {
	reg(&CheckSpec{
		ID: "C18", PkgDir: "statedb",
		Quick: []HarnessRun{
			{Entry: "VerifC18NonUnique", Params: map[string]int{"L": 2}, Covers: []string{"C18.escape-used", "C18.shorter-secondary-with-primary", "C18.nonunique.end"}, DiffRuns: 40},
			{Entry: "VerifC18Ints", Covers: []string{"C18.ints.end"}, DiffRuns: 20},
			{Entry: "VerifC18Strings", Params: map[string]int{"L": 3}, Covers: []string{"C18.strings.end"}, DiffRuns: 20},
			{Entry: "VerifC18LPM", Params: map[string]int{"LPMBYTES": 3}, Covers: []string{"C18.lpm.end", "C18.lpm.partial-byte"}, DiffRuns: 20},
			// primaries of 255..256 bytes (first/last byte symbolic, escapes lengthen them): the 2-byte length suffix crosses 255/256
			{Entry: "VerifC18Long", Params: map[string]int{"LO": 255, "HI": 256}, Covers: []string{"C18.long.high-byte", "C18.long.low-byte-only", "C18.long.end"}, DiffRuns: 10},
		},
		Thorough: []HarnessRun{
			{Entry: "VerifC18NonUnique", Params: map[string]int{"L": 3, "PEMPTY": 1}, Covers: []string{"C18.escape-used", "C18.nonunique.end"}, DiffRuns: 40},
			{Entry: "VerifC18Strings", Params: map[string]int{"L": 4}, Covers: []string{"C18.strings.end"}, DiffRuns: 20},
			{Entry: "VerifC18LPM", Params: map[string]int{"LPMBYTES": 4}, Covers: []string{"C18.lpm.end", "C18.lpm.partial-byte"}, DiffRuns: 20},
			{Entry: "VerifC18Long", Params: map[string]int{"LO": 254, "HI": 257}, Covers: []string{"C18.long.high-byte", "C18.long.low-byte-only", "C18.long.end"}, DiffRuns: 10},
		},
		Outside: []string{"outside: secondary/primary keys longer than the L bound; primaries other than the 254..257-byte family of VerifC18Long (first and last byte symbolic, the rest constant) beyond L bytes; encoded primaries >= 64 KiB; netip-typed encoders (net/netip internals are not executed)"},
	})
}

func fanRuns(fans []int, n int, extra map[string]int) []HarnessRun {
	var out []HarnessRun
	for _, f := range fans {
		p := map[string]int{"FAN": f, "N": n}
		for k, v := range extra {
			p[k] = v
		}
		out = append(out, HarnessRun{Entry: "VerifC11Fanout", Params: p, Covers: []string{"C11.fan.end"}, DiffRuns: 10})
	}
	return out
}

func init() {
	c11covers := []string{"C11.replaced-existing", "C11.deleted-existing", "C11.deleted-absent", "C11.branched", "C11.kept-version-compared", "C11.kept-iterator-compared", "C11.end"}
	reg(&CheckSpec{
		ID: "C11", PkgDir: "part",
		Quick: append([]HarnessRun{
			{Entry: "VerifC11Driver", Params: map[string]int{"N": 3, "L": 1}, Covers: c11covers, DiffRuns: 60},
			{Entry: "VerifC11Driver", Params: map[string]int{"N": 2, "L": 2}, Covers: c11covers, DiffRuns: 60},
			// OPS 793 = insert|clone|iter|commit|branch|get... : insert(1) delete(2) clone(8) branch(256): clones and kept versions that are written through later
			{Entry: "VerifC11Driver", Params: map[string]int{"N": 4, "L": 1, "OPS": 1 | 2 | 8 | 256}, Covers: []string{"C11.branched", "C11.kept-version-compared", "C11.end"}, DiffRuns: 20},
			{Entry: "VerifC11Deep", Params: map[string]int{"N": 1, "DEPTH": 40}, Covers: []string{"C11.deep.end"}, DiffRuns: 10},
			// root-only watch mode after a committed pre-state {"", "a"}: a write below a key followed by a write of that key
			{Entry: "VerifC11Driver", Params: map[string]int{"N": 2, "L": 1, "ROOTONLY": 1, "PRE": 2}, Covers: []string{"C11.kept-version-compared", "C11.end"}, DiffRuns: 20},
			// pre-state {"", "a", "ab"}: insert/modify/delete pairs around a key that holds a value and has exactly one child
			{Entry: "VerifC11Driver", Params: map[string]int{"N": 2, "L": 2, "PRE": 3, "OPS": 1 | 2 | 4}, Covers: []string{"C11.kept-version-compared", "C11.end"}, DiffRuns: 20},
		}, append(fanRuns([]int{4, 5, 16, 17, 48, 49}, 1, nil), append(fanRuns([]int{5, 17, 49}, 1, map[string]int{"INNERLEAF": 1}), fanRuns([]int{2, 4}, 2, map[string]int{"INNERLEAF": 1, "KTAIL": 1, "QTAIL": 0, "CLONE": 0})...)...)...),
		Thorough: append(append([]HarnessRun{
			{Entry: "VerifC11Driver", Params: map[string]int{"N": 3, "L": 1, "ROOTONLY": 1}, Covers: c11covers, DiffRuns: 20},
			{Entry: "VerifC11Driver", Params: map[string]int{"N": 2, "L": 2, "ROOTONLY": 1, "PRE": 3}, Covers: []string{"C11.kept-version-compared", "C11.end"}, DiffRuns: 20},
		}, fanRuns([]int{17}, 2, map[string]int{"QTAIL": 1, "KTAIL": 1})...),
			fanRuns([]int{17, 49}, 1, map[string]int{"DEEP": 1})...),
		Outside: []string{"outside: keys longer than L bytes except through the fan-out families (shared prefix byte + <=2 symbolic bytes drawn from an 8-value alphabet around the children's keys); keys >= 64 KiB"},
	})
	w := func(n1, n2, l, rootonly, mw int) HarnessRun {
		return HarnessRun{Entry: "VerifC12Watch", Params: map[string]int{"N1": n1, "N2": n2, "L": l, "ROOTONLY": rootonly, "MODIFYWATCH": mw},
			Covers: []string{"C12.committed", "C12.commit-no-notify", "C12.abandoned", "C12.delete-absent", "C12.end"}, DiffRuns: 30}
	}
	// concrete 3-4 key pre-states (inner node with a leaf and 1/2 children below a node4 root), symbolic watches and later ops with keys <= 2..3 bytes
	preset := func(p, n2 int) HarnessRun {
		return HarnessRun{Entry: "VerifC12Watch", Params: map[string]int{"PRESET": p, "N1": 0, "N2": n2, "L": 2},
			Covers: []string{"C12.committed", "C12.commit-no-notify", "C12.abandoned", "C12.end"}, DiffRuns: 20}
	}
	// {"a","abc","abd","x"}: deleting "a" shifts its only child up (the copy keeps the child's channel); a second
	// operation of the same transaction below "ab" must still close the Prefix("ab") channel handed out earlier
	merge7 := HarnessRun{Entry: "VerifC12Watch", Params: map[string]int{"PRESET": 7, "N1": 0, "N2": 2, "L": 3, "ALPHA": 1, "WL": 2, "KL1": 1, "FIRSTDEL": 1},
		Covers: []string{"C12.committed", "C12.abandoned", "C12.end"}, DiffRuns: 20}
	// a channel taken with Txn.Get inside the later transaction, between its two operations
	txnget := HarnessRun{Entry: "VerifC12Watch", Params: map[string]int{"N1": 1, "N2": 2, "L": 1, "ROOTONLY": 0, "MODIFYWATCH": 0, "TXNGET": 1, "WL": 0},
		Covers: []string{"C12.committed", "C12.txnget", "C12.end"}, DiffRuns: 20}
	// the same with the channel of Txn.Prefix(k)
	txnprefix := HarnessRun{Entry: "VerifC12Watch", Params: map[string]int{"N1": 1, "N2": 2, "L": 1, "ROOTONLY": 0, "MODIFYWATCH": 0, "TXNGET": 2, "WL": 0},
		Covers: []string{"C12.committed", "C12.txnget", "C12.end"}, DiffRuns: 20}
	// {"ab","ac","ad","x"}: an insert that fills the node, Txn.Get of a symbolic key, then an operation that may grow the node
	txnget8 := HarnessRun{Entry: "VerifC12Watch", Params: map[string]int{"PRESET": 8, "N1": 0, "N2": 2, "L": 2, "ALPHA": 1, "TXNGET": 1, "WL": 0, "FIRSTINS": 1},
		Covers: []string{"C12.committed", "C12.txnget", "C12.end"}, DiffRuns: 20}
	reg(&CheckSpec{
		ID: "C12", PkgDir: "part",
		Quick:    []HarnessRun{w(1, 2, 1, 0, 0), w(1, 2, 1, 1, 0), txnget, txnprefix, txnget8, w(2, 1, 1, 0, 1), w(1, 1, 2, 0, 0), w(1, 1, 2, 1, 0), preset(1, 1), preset(2, 1), preset(4, 1), preset(5, 1), preset(6, 1), merge7},
		Thorough: []HarnessRun{preset(3, 1), w(1, 2, 1, 1, 1), w(2, 1, 1, 1, 0),
			{Entry: "VerifC12Watch", Params: map[string]int{"PRESET": 8, "N1": 0, "N2": 2, "L": 2, "ALPHA": 1, "TXNGET": 1, "WL": 0}, Covers: []string{"C12.txnget", "C12.end"}, DiffRuns: 20},
			{Entry: "VerifC12Watch", Params: map[string]int{"N1": 1, "N2": 2, "L": 1, "TXNGET": 1}, Covers: []string{"C12.txnget", "C12.end"}, DiffRuns: 20}},
		Outside:  []string{"pre-state shapes: PRESET 1-7 are concrete 3-6 key trees (keys that are prefixes of one another, a node with 5 children, an inner node with a value and a single inner-node child); in the PRESET 7 run symbolic key bytes range over {a..e,x}, the first operation is a delete of a key of at most one byte and watched keys have at most two bytes", "TXNGET=1: one channel taken with Txn.Get(k) inside the later transaction after its first operation; it must be closed after Commit+Notify if a later operation of that transaction changed k, and at the latest when a following transaction changes k", "TXNGET=2: the same for the channel returned by Txn.Prefix(k) (closed when a key with that prefix changes later in the transaction or in the next one)", "outside: trees deeper than the keys of length <= L allow; more than N1 pre-state keys and N2 later operations"},
	})
}

func init() {
	c13 := func(n, w, plset, check int, diff int) HarnessRun {
		p := map[string]int{"N": n, "W": w, "CHECK": check}
		if plset >= 0 {
			p["PLSET"] = plset
		}
		return HarnessRun{Entry: "VerifC13Driver", Params: p, Covers: []string{"C13.replaced", "C13.deleted-existing", "C13.branched", "C13.kept-iterator-compared", "C13.end"}, DiffRuns: diff}
	}
	// concrete 4-5 entry pre-states, then N symbolic insert/delete/lookup steps in ONE transaction (OPS 131 = insert|delete|lookup), prefix lengths {0,1,2,4}
	c13p := func(preset, n int) HarnessRun {
		return HarnessRun{Entry: "VerifC13Driver", Params: map[string]int{"N": n, "W": 8, "CHECK": 0, "PRESET": preset, "OPS": 1 | 2 | 128, "PLSET": 1 | 2 | 4 | 16}, Covers: []string{"C13.deleted-existing", "C13.end"}, DiffRuns: 20}
	}
	// iterators kept from an open transaction (All/Prefix/LowerBound) across later writes of the same transaction
	c13it := func(n int) HarnessRun {
		return HarnessRun{Entry: "VerifC13Driver", Params: map[string]int{"N": n, "W": 8, "CHECK": 0, "OPS": 1 | 2 | 8 | 16 | 32, "PLSET": 1 | 2 | 256}, Covers: []string{"C13.kept-iterator-compared", "C13.end"}, DiffRuns: 20}
	}
	reg(&CheckSpec{
		ID: "C13", PkgDir: "lpm",
		// PLSET 291 = prefix lengths {0,1,5,8}; 99203 = {0,1,7,8,9,15,16}
		Quick:    []HarnessRun{c13(2, 8, 291, 0, 60), c13(2, 8, 291, 1, 60), c13(2, 8, -1, 0, 30), c13p(1, 2), c13p(2, 2), c13p(3, 2), c13it(3)},
		Thorough: []HarnessRun{c13(2, 16, 99203, 0, 30), c13(2, 16, 99203, 1, 30)},
		Outside: []string{"outside: keys wider than W bits (8 quick, 16 thorough; the trie logic is width-generic, width is a loop bound only), prefix lengths outside the listed PLSET in runs that restrict it, more than N operations; Lookup of a non-stored shorter-than-full key is not asserted (undefined by the statement); netip conversion helpers"},
	})
	c17m := func(n, l, ops int) HarnessRun {
		return HarnessRun{Entry: "VerifC17Map", Params: map[string]int{"N": n, "L": l, "OPS": ops}, Covers: []string{"C17.map.end"}, DiffRuns: 40, MapOrder: true}
	}
	reg(&CheckSpec{
		ID: "C17", PkgDir: "part",
		// OPS bits: 1 Set, 2 Delete, 4 FromMap, 8 Txn, 16 Txn reused after Commit
		Quick: []HarnessRun{
			c17m(2, 1, 7), c17m(1, 1, 24), c17m(3, 1, 3),
			{Entry: "VerifC17Set", Params: map[string]int{"N": 2, "L": 1}, Covers: []string{"C17.set.end", "C17.set.union", "C17.set.difference"}, DiffRuns: 40},
			{Entry: "VerifKFFromMapSingleton"}, {Entry: "VerifKFMapTxnReuse"},
			{Entry: "VerifC17Break", Covers: []string{"C17.break.end"}, DiffRuns: 10},
			// 18-key pre-state ("p" + 17 x "p?"): deletes that shrink a node48 carrying a value
			{Entry: "VerifC17Map", Params: map[string]int{"N": 1, "L": 2, "OPS": 2, "BIGPRE": 17}, Covers: []string{"C17.map.end"}, DiffRuns: 10},
			// JSON / YAML round trips: the marshalling methods are interpreted, the library calls they make run on the host
			{Entry: "VerifC17Codec", Params: map[string]int{"N": 2}, Covers: []string{"C17.codec.empty", "C17.codec.singleton", "C17.codec.tree", "C17.codec.end"}, DiffRuns: 40},
		},
		Thorough: []HarnessRun{{Entry: "VerifC17Set", Params: map[string]int{"N": 2, "L": 2}, Covers: []string{"C17.set.end"}, DiffRuns: 40}},
		Known: []KnownProbe{{ID: "KF-frommap-singleton", Entry: "VerifKFFromMapSingleton"}, {ID: "KF-maptxn-reuse", Entry: "VerifKFMapTxnReuse"}},
		Outside: []string{"JSON/YAML round-trip clause: the statedb methods (MarshalJSON, UnmarshalJSON, MarshalYAML, UnmarshalYAML of Map and Set) are interpreted; encoding/json and yaml.v3 themselves are environment, executed by the host on concrete copies of the VM values (symbolic key bytes and numbers are concretised at that boundary: one path per value the solver finds feasible). Bounds: <= N entries (2 quick, 3 thorough), keys from {a,b,c,aa,ba,ca}, values {A in 0..2} x {plain, string field, nested map}; yaml.Unmarshal's callback into UnmarshalYAML is made by the harness (document node -> sequence node)",
			"outside: keys longer than L; hash maps with more than 2 entries in FromMap; Map[string,uint64], Map[string,struct] and Set[string] instantiations only"},
	})
}

func init() {
	c01 := func(p map[string]int, diff int) HarnessRun {
		return HarnessRun{Entry: "VerifC01Snapshots", Params: p, Covers: []string{"C01.committed", "C01.aborted", "C01.end"}, DiffRuns: diff}
	}
	step := HarnessRun{Entry: "VerifC01LpmEntryStep", Covers: []string{"C01.lpmentry.upsert", "C01.lpmentry.delete", "C01.lpmentry.end"}, DiffRuns: 30}
	reg(&CheckSpec{
		ID: "C01", PkgDir: "statedb",
		Quick: []HarnessRun{
			c01(map[string]int{"N": 1, "PRE": 2, "OPMAX": 2}, 30),
			c01(map[string]int{"N": 2, "PRE": 2, "OPMAX": 1}, 30),
			c01(map[string]int{"N": 2, "PRE": 5, "OPMAX": 1}, 10),
			c01(map[string]int{"N": 2, "PRE": 1, "OPMAX": 1, "LPM": 0, "SYMQ": 1}, 10),
			// primary keys that are prefixes of one another, two writes per transaction
			c01(map[string]int{"N": 2, "PRE": 3, "IDSET": 1, "WPT": 2, "OPMAX": 1}, 10),
			// ids {"a","ab","x"}: "a" carries a value and has one child, away from the root; point queries for every id
			c01(map[string]int{"N": 2, "PRE": 3, "IDSET": 2, "WPT": 2, "OPMAX": 1}, 10),
			step,
			// an iterator obtained through the write transaction (one kind per path) is frozen against that transaction's later writes
			{Entry: "VerifC01WtxnIter", Covers: []string{"C01.wtxn-iterator.end"}, DiffRuns: 20},
			// a reader thread against a writer thread, switching at every synchronisation operation
			{Entry: "VerifC01Reader", Params: map[string]int{"N": 1}, Covers: []string{"C01.reader.end"}, NoNative: true, Preempt: 2, Budget2: 2, Deadlock: true},
		},
		Thorough: []HarnessRun{
			c01(map[string]int{"N": 2, "PRE": 6, "OPMAX": 1}, 10),
			c01(map[string]int{"N": 1, "PRE": 2, "OPMAX": 3}, 10),
			c01(map[string]int{"N": 2, "PRE": 3, "OPMAX": 1}, 10),
			{Entry: "VerifC01Reader", Params: map[string]int{"N": 2}, Covers: []string{"C01.reader.end"}, NoNative: true, Preempt: 2, Budget2: 2, Deadlock: true},
		},
		Known: []KnownProbe{{ID: "KF-lpm-tail-alias", Entry: "VerifC01LpmEntryStep"}},
		Outside: []string{"concurrency: besides snapshots placed sequentially before/while/after each write transaction, VerifC01Reader runs a reader thread against a writer thread with switches at every synchronisation operation (preemption budget 2); no happens-before race detector (unsynchronised conflicting accesses are not reported as such), no weak-memory effects; graveyard collection running between steps; more than N writes after PRE concrete pre-state objects; weak-memory effects",
			"queries: full iteration through every index (primary, non-unique multi-key, non-unique LPM, revision) plus point queries with concrete keys (SYMQ=1: symbolic primary query key)"},
	})
	c03 := func(n, l, ops, focus, diff int) HarnessRun {
		return HarnessRun{Entry: "VerifC03Driver", Params: map[string]int{"N": n, "L": l, "OPS": ops, "FOCUS": focus}, Covers: []string{"C03.end"}, DiffRuns: diff}
	}
	c03f := func(n, l, ops, focus, first, diff int) HarnessRun {
		return HarnessRun{Entry: "VerifC03Driver", Params: map[string]int{"N": n, "L": l, "OPS": ops, "FOCUS": focus, "FIRSTOP": first}, Covers: []string{"C03.end", "C03.modify-keeps-contents"}, DiffRuns: diff}
	}
	// OPS bits: 1 insert 2 delete 4 CAS 8 CAD 16 modify 32 commit 64 abort 128 deleteall 256 insertwatch 512 wrong-table 1024 closed-txn
	all := (1 << 11) - 1
	core := 1 | 2 | 4 | 8 | 32 | 64
	reg(&CheckSpec{
		ID: "C03", PkgDir: "statedb",
		// first an insert, then two of CAS | CAD | modify: a revision guard read before a Modify must be rejected after it
		Quick:    []HarnessRun{c03(2, 1, all, 3, 40), c03(3, 1, core, 3, 40), c03f(3, 1, 4|8|16, 3, 1, 20)},
		Thorough: []HarnessRun{c03(2, 2, all, 3, 40)},
		Outside:  []string{"outside: more than N operations per history, keys longer than L, primary keys >= 64 KiB; one table plus one foreign table; for a finished transaction only Insert/Modify/Delete/CompareAndSwap/CompareAndDelete are asserted to return ErrTransactionClosed (as the statement names them)"},
	})
	reg(&CheckSpec{
		ID: "C09", PkgDir: "statedb",
		Quick: []HarnessRun{c03(2, 1, all, 9, 40), c03(3, 1, core, 9, 40), c03f(3, 1, 4|8|16, 9, 1, 20),
			// concurrent writers on other tables (VM threads scheduled at lock acquisitions)
			{Entry: "VerifC10Threads", Params: map[string]int{"T": 2, "LISTMAX": 3, "KINDMAX": 0}, Covers: []string{"C10.end"}, NoNative: true, Preempt: 1, Deadlock: true}},
		Thorough: []HarnessRun{c03(2, 2, all, 9, 40)},
		Outside:  []string{"outside: revision wrap-around at 2^64; concurrent writers: 2 threads with symbolic table lists, preemption budget 2 at lock acquisitions (VerifC10Threads: per-table revision = number of committed inserts, revisions distinct)"},
	})
}

func init() {
	c04 := func(p map[string]int, diff int) HarnessRun {
		return HarnessRun{Entry: "VerifC04Indexes", Params: p, Covers: []string{"C04.end"}, DiffRuns: diff}
	}
	lpmRun := func(p map[string]int) HarnessRun {
		return HarnessRun{Entry: "VerifC04LPM", Params: p, Covers: []string{"C04.lpm.end", "C04.lpm.two-prefixes"}, DiffRuns: 20}
	}
	ks := HarnessRun{Entry: "VerifC04KeySet", Covers: []string{"C04.keyset.end"}, DiffRuns: 30}
	reg(&CheckSpec{
		ID: "C04", PkgDir: "statedb",
		Quick:    []HarnessRun{c04(map[string]int{"N": 1, "L": 1}, 40), c04(map[string]int{"N": 1, "PRE": 1, "NILKEYS": 0, "NTAGSMAX": 1}, 20), ks, lpmRun(map[string]int{"N": 2, "PRE": 1, "OPSEQ": 1, "NPMIN": 1}), lpmRun(map[string]int{"N": 1, "PRE": 2}),
			// 18 primary keys "p", "pA".."pQ" (a node48 carrying a value): one symbolic delete around it
			c04(map[string]int{"N": 1, "L": 1, "BIGPRE": 17, "NTAGSMAX": 0, "NILKEYS": 0, "REJECTED": 0, "OPMIN": 2}, 10)},
		Thorough: []HarnessRun{
			// LowerBound through the LPM index: (stored prefix, object) pairs not below the query, in (masked bits, length, primary key) order
			{Entry: "VerifC04LPM", Params: map[string]int{"N": 1, "PRE": 2, "LOWERBOUND": 1}, Covers: []string{"C04.lpm.end", "C04.lpm.lowerbound"}, DiffRuns: 20},
			c04(map[string]int{"N": 1, "PRE": 2, "NTAGSMAX": 1}, 20), c04(map[string]int{"N": 1, "L": 2, "BIGPRE": 17, "NTAGSMAX": 0, "NILKEYS": 0, "REJECTED": 0, "OPMIN": 2}, 10)},
		Known: []KnownProbe{},
		Outside: []string{"LPM index at table level: VerifC04LPM (objects with 0..2 prefixes over 8-bit data, lengths {4,8}, possibly masking to the same key; Get/List = longest match, Prefix = covered; thorough tier: LowerBound = pairs not below the query in trie order); AnyTable string-keyed queries; key sets with more than 2 keys; more than N symbolic writes after PRE concrete objects; keys longer than L",
			"the order assertion is on the stored index keys (bytewise ascending), which by C18 is (index key, primary key) order"},
	})
}

func init() {
	c07 := func(p map[string]int, diff int) HarnessRun {
		return HarnessRun{Entry: "VerifC07Changes", Params: p, Covers: []string{"C07.delete-delivered", "C07.open-watch", "C07.next-with-writetxn", "C07.partial", "C07.end"}, DiffRuns: diff}
	}
	// with rejected compare-and-swap writes in the histories
	c07cas := func(n int) HarnessRun {
		return HarnessRun{Entry: "VerifC07Changes", Params: map[string]int{"N": n, "PRE": 1, "CAS": 1}, Covers: []string{"C07.rejected-cas", "C07.end"}, DiffRuns: 30}
	}
	reg(&CheckSpec{
		ID: "C07", PkgDir: "statedb",
		Quick:    []HarnessRun{c07(map[string]int{"N": 3, "PRE": 1, "CAS": 0}, 60), c07cas(2), {Entry: "VerifKFNextUncommitted"},
			// step 4: Next through a write transaction on another table that predates a commit to the iterated table
			{Entry: "VerifC07Changes", Params: map[string]int{"N": 2, "PRE": 1, "CAS": 0, "STEPMAX": 4}, Covers: []string{"C07.next-with-older-writetxn", "C07.end"}, DiffRuns: 30},
			// the same delivery clause with the graveyard collector running (C08's harness): Next through a WriteTxn with a pending delete, then GC, then a lagging Next
			{Entry: "VerifC08Graveyard", Params: map[string]int{"N": 2, "NIT": 2, "STEPMAX": 6, "CAS": 0}, Covers: []string{"C08.next-with-writetxn", "C08.end"}, NoNative: true, Preempt: 0, Deadlock: true},
			c08partial},
		Thorough: []HarnessRun{c07(map[string]int{"N": 3, "PRE": 0, "CAS": 0}, 30), c07(map[string]int{"N": 2, "PRE": 2, "L": 2, "CAS": 0}, 30),
			{Entry: "VerifC07Changes", Params: map[string]int{"N": 2, "PRE": 2, "CAS": 1}, Covers: []string{"C07.rejected-cas", "C07.end"}, DiffRuns: 30}},
		Known:    []KnownProbe{{ID: "KF-next-uncommitted-deletes", Entry: "VerifKFNextUncommitted"}},
		Outside: []string{"outside: interleaving with graveyard collection and with other iterators being created/closed (one iterator, no collector runs: see C08); the Observable wrapper; finalizer-driven close; more than N steps after PRE concrete objects; keys longer than L",
			"steps: write txn (insert/delete, commit/abort) | Next(fresh ReadTxn) fully consumed | Next(open WriteTxn with a pending write) | Next partially consumed (1 element) | Next(WriteTxn on another table, opened before a later commit to the iterated table)"},
	})
	c19 := func(n, acts, diff int) HarnessRun {
		return HarnessRun{Entry: "VerifC19Init", Params: map[string]int{"N": n, "ACTS": acts}, Covers: []string{"C19.committed", "C19.aborted", "C19.became-initialized", "C19.end"}, DiffRuns: diff}
	}
	reg(&CheckSpec{
		ID: "C19", PkgDir: "statedb",
		Quick:    []HarnessRun{c19(3, 2, 60), {Entry: "VerifC19Signal", Covers: []string{"C19.signal.end"}, NoNative: true}},
		Thorough: []HarnessRun{c19(4, 1, 60), c19(5, 1, 60)},
		Known:    []KnownProbe{},
		Outside: []string{"outside: the moment a waiter wakes up relative to the committing transaction is covered only by C02's commit observer (channel closed => a fresh ReadTxn shows the table initialized); Derive's job wiring; more than two initializer names; registering the same name twice (panics by contract)"},
	})
}

// STEPS 262 = write | drain | "a writer holds the table while the collector scans, re-inserts and commits"
var c08held = HarnessRun{Entry: "VerifC08Graveyard", Params: map[string]int{"N": 4, "NIT": 1, "CAS": 0, "STEPS": 2 | 4 | 256}, Covers: []string{"C08.writer-held-table-during-scan", "C08.end"}, NoNative: true, Preempt: 0, Deadlock: true}

var c08partial = HarnessRun{Entry: "VerifC08Graveyard", Params: map[string]int{"N": 4, "NIT": 1, "CAS": 0, "STEPS": 1 | 16 | 128}, Covers: []string{"C08.partial", "C08.gc-window", "C08.end"}, NoNative: true, Preempt: 0, Deadlock: true}

func init() {
	reg(&CheckSpec{
		ID: "C05", PkgDir: "statedb",
		Quick: []HarnessRun{
			{Entry: "VerifC05Serial", Covers: []string{"C05.disjoint-commit", "C05.blocked", "C05.newtable", "C05.end"}, NoNative: true, Deadlock: true},
			{Entry: "VerifKFCommitDropsNewTable"},
			// one thread, every table list (orders, adjacent and non-adjacent duplicates): WriteTxn must return and hold each table once
			{Entry: "VerifC10Threads", Params: map[string]int{"T": 1, "LISTMAX": 7, "KINDMAX": 0}, Covers: []string{"C10.end"}, NoNative: true, Preempt: 1, Deadlock: true},
			{Entry: "VerifC10Threads", Params: map[string]int{"T": 2, "LISTMAX": 3, "KINDMAX": 0}, Covers: []string{"C10.end"}, NoNative: true, Preempt: 1, Deadlock: true},
			{Entry: "VerifC10Threads", Params: map[string]int{"T": 2, "LISTMAX": 1, "KINDMAX": 2}, Covers: []string{"C10.end"}, NoNative: true, Preempt: 1, Budget2: 3, Deadlock: true},
			// every atomic / unlock / channel operation is a scheduling point: two committers on disjoint tables
			{Entry: "VerifC10Threads", Params: map[string]int{"T": 2, "LISTMAX": 1, "KINDMAX": 0, "COMMITONLY": 1}, Covers: []string{"C10.end"}, NoNative: true, Preempt: 2, Budget2: 2, Deadlock: true},
			// one-table database: a committer that holds every table against a thread registering a table, switching at every synchronisation operation
			{Entry: "VerifC10Threads", Params: map[string]int{"T": 2, "NTAB": 1, "LISTMAX": 0, "KINDMAX": 2, "COMMITONLY": 1}, Covers: []string{"C10.end"}, NoNative: true, Preempt: 2, Budget2: 2, Deadlock: true},
		},
		Thorough: []HarnessRun{
			{Entry: "VerifC10Threads", Params: map[string]int{"T": 2, "LISTMAX": 3, "KINDMAX": 2}, Covers: []string{"C10.end"}, NoNative: true, Preempt: 1, Budget2: 2, Deadlock: true},
			{Entry: "VerifC10Threads", Params: map[string]int{"T": 2, "NTAB": 1, "LISTMAX": 0, "KINDMAX": 2, "COMMITONLY": 1}, Covers: []string{"C10.end"}, NoNative: true, Preempt: 2, Budget2: 3, Deadlock: true},
			{Entry: "VerifC10Threads", Params: map[string]int{"T": 2, "LISTMAX": 7, "KINDMAX": 0}, Covers: []string{"C10.end"}, NoNative: true, Preempt: 1, Budget2: 3, Deadlock: true},
		},
		Known: []KnownProbe{{ID: "KF-commit-drops-new-table", Entry: "VerifKFCommitDropsNewTable"}},
		Outside: []string{"thread runs: symbolic table lists (any order, duplicates) on 3 tables, thread kinds write / iterator create+close / register a table; one run uses a one-table database so that the committer holds every table while another thread registers a table, with every atomic/unlock/channel operation a scheduling point", "outside: more than 2-3 threads / 3 tables; more than the preemption budget (2 quick, 3 thorough) of voluntary switches per schedule, scheduling points = lock acquisitions and goroutine starts (a ReadTxn/root load is atomic); weak-memory effects",
			"VerifC05Serial: two logical actors in one thread, the VM's lock monitor decides 'would block' (VM-only vocabulary: counterexamples of this harness are replayed concretely in the VM on the real code, not with go test)"},
	})
	reg(&CheckSpec{
		ID: "C10", PkgDir: "statedb",
		Quick: []HarnessRun{
			{Entry: "VerifC10Threads", Params: map[string]int{"T": 2, "LISTMAX": 7, "KINDMAX": 1}, Covers: []string{"C10.end"}, NoNative: true, Preempt: 1, Deadlock: true},
			{Entry: "VerifC05Serial", Covers: []string{"C05.disjoint-commit", "C05.blocked", "C05.end"}, NoNative: true, Deadlock: true},
			// collector against a writer that holds the table during the scan (a collector that keeps a table locked deadlocks the next writer)
			c08held,
			// three tables, the collector woken while a writer holds one of them: transactions on the other tables must be granted
			{Entry: "VerifC10Collector", Covers: []string{"C10.collector.garbage", "C10.collector.other-table-granted", "C10.collector.end"}, NoNative: true, Preempt: 1, Deadlock: true},
		},
		Thorough: []HarnessRun{
			{Entry: "VerifC08Graveyard", Params: map[string]int{"N": 2, "NIT": 1}, Covers: []string{"C08.end"}, NoNative: true, Preempt: 1, Deadlock: true},
			{Entry: "VerifC10Threads", Params: map[string]int{"T": 3, "LISTMAX": 1, "KINDMAX": 0}, Covers: []string{"C10.end"}, NoNative: true, Preempt: 1, Budget2: 2, Deadlock: true},
		},
		Outside: []string{"outside: starvation/fairness under real schedulers; more than 3 threads; the lock-order argument (acyclic acquisition graph over every explored path, no channel/timer wait while a lock is held) extends the deadlock verdict beyond the explored thread counts only under the assumption that mutexes and the non-blocking channel sends seen on the explored paths are the only waiting primitives reachable from these entry points",
			"the solver contributes little here: table lists and schedules are small enumerations; the value is the controlled execution of the real lock code"},
	})
	reg(&CheckSpec{
		ID: "C08", PkgDir: "statedb",
		Quick: []HarnessRun{
			{Entry: "VerifC08Graveyard", Params: map[string]int{"N": 2, "NIT": 1}, Covers: []string{"C08.retained", "C08.collected-something", "C08.closed", "C08.gc-window", "C08.end"}, NoNative: true, Preempt: 1, Deadlock: true},
			{Entry: "VerifC08Graveyard", Params: map[string]int{"N": 3, "NIT": 0}, Covers: []string{"C08.end"}, NoNative: true, Preempt: 0, Deadlock: true},
			{Entry: "VerifC08Graveyard", Params: map[string]int{"N": 2, "NIT": 2}, Covers: []string{"C08.end"}, NoNative: true, Preempt: 0, Deadlock: true},
			{Entry: "VerifC08Graveyard", Params: map[string]int{"N": 2, "NIT": 2, "EARLY": 1}, Covers: []string{"C08.end"}, NoNative: true, Preempt: 0, Deadlock: true},
			// steps 5 (new iterator) and 6 (catch up through a WriteTxn with a pending delete); scripted prefix: delete, close all iterators
			{Entry: "VerifC08Graveyard", Params: map[string]int{"N": 3, "NIT": 1, "SCRIPT": 1, "STEPMAX": 6, "CAS": 0}, Covers: []string{"C08.new-iterator", "C08.end"}, NoNative: true, Preempt: 0, Deadlock: true},
			{Entry: "VerifC08Graveyard", Params: map[string]int{"N": 2, "NIT": 2, "STEPMAX": 6, "CAS": 0}, Covers: []string{"C08.next-with-writetxn", "C08.end"}, NoNative: true, Preempt: 0, Deadlock: true},
			// STEPS 145 = write | collector window | partial consumption (first pending change only)
			c08partial, c08held,
			// after a scripted deletion: catch-ups, closes and collector windows of two iterators (STEPS 28); an iterator that is
			// already caught up is not given one more Next before the graveyard must drain
			{Entry: "VerifC08Graveyard", Params: map[string]int{"N": 3, "NIT": 2, "SCRIPT": 2, "STEPS": 4 | 8 | 16, "NOFINALDRAIN": 1, "CAS": 0}, Covers: []string{"C08.caught-up-iterator-left-alone", "C08.closed", "C08.end"}, NoNative: true, Preempt: 0, Deadlock: true},
			// two tables with one iterator each: one collection run with collectable entries in both
			{Entry: "VerifC08TwoTables", Covers: []string{"C08.two.gc-window", "C08.two.end"}, NoNative: true, Deadlock: true},
		},
		Thorough: []HarnessRun{
			{Entry: "VerifC08Graveyard", Params: map[string]int{"N": 3, "NIT": 1, "SCRIPT": 1, "STEPMAX": 6, "CAS": 1}, Covers: []string{"C08.end"}, NoNative: true, Preempt: 0, Deadlock: true},
			{Entry: "VerifC08Graveyard", Params: map[string]int{"N": 3, "NIT": 2, "STEPMAX": 6, "CAS": 0}, Covers: []string{"C08.end"}, NoNative: true, Preempt: 0, Deadlock: true},
			{Entry: "VerifC08Graveyard", Params: map[string]int{"N": 3, "NIT": 2, "EARLY": 1}, Covers: []string{"C08.end"}, NoNative: true, Preempt: 0, Deadlock: true},
			{Entry: "VerifC08Graveyard", Params: map[string]int{"N": 3, "NIT": 2}, Covers: []string{"C08.end"}, NoNative: true, Preempt: 0, Deadlock: true},
		},
		Outside: []string{"step kinds: write (insert/delete/rejected CAS of two keys), iterator catches up, iterator closed, collector window (virtual time passes), new iterator, catch-up through a WriteTxn with a pending delete, partial consumption (first pending change only), writer holding the table during the collector's scan and re-inserting; VerifC08TwoTables: two tables with one iterator each, per round symbolic deletes/catch-ups/collector window, symbolic size of the second table", "outside: real-time behaviour of rate.Limiter (stub: Wait yields and returns ctx.Err()); more than 2 keys / 2 iterators / N writer steps; preemption budget 2 at lock acquisitions (this is what places the collector between its lock-free scan and its write transaction); VM-only vocabulary (virtual time, threads): counterexamples are replayed concretely in the VM"},
	})
	reg(&CheckSpec{
		ID: "C20", PkgDir: "statedb",
		Quick: []HarnessRun{{Entry: "VerifC20WatchSet", Params: map[string]int{"NCH": 2, "TMAX": 3}, Covers: []string{"C20.result", "C20.cancelled", "C20.settled-several", "C20.second-wait", "C20.end"}, NoNative: true, Deadlock: true},
			// members that enter through Merge of another set; a cleared set contributes nothing; HasAny
			{Entry: "VerifC20WatchSet", Params: map[string]int{"NCH": 2, "TMAX": 2, "MERGE": 1}, Covers: []string{"C20.merged-member", "C20.result", "C20.end"}, NoNative: true, Deadlock: true}},
		Thorough: []HarnessRun{{Entry: "VerifC20WatchSet", Params: map[string]int{"NCH": 2, "TMAX": 5}, Covers: []string{"C20.result", "C20.cancelled", "C20.settled-several", "C20.end"}, NoNative: true, Deadlock: true}},
		Outside:  []string{"outside: real timer jitter; more than 3 channels; times beyond TMAX units; virtual discrete-event time (CPU steps take no time, timers fire when every thread is blocked); reflect.Select is modelled by the VM's select (choice among ready cases is explored)"},
	})
}

func init() {
	c02 := func(n int) HarnessRun {
		return HarnessRun{Entry: "VerifC02Atomic", Params: map[string]int{"N": n, "L": 1}, Covers: []string{"C02.committed", "C02.aborted", "C02.observer-saw-both-states", "C02.end"}, NoNative: true}
	}
	reg(&CheckSpec{
		ID: "C02", PkgDir: "statedb",
		Quick: []HarnessRun{c02(2),
			// a table is registered while the observed transaction is open (Commit merges into a grown root)
				{Entry: "VerifC02Atomic", Params: map[string]int{"N": 1, "L": 1, "NEWTABLE": 1}, Covers: []string{"C02.table-registered-meanwhile", "C02.committed", "C02.end"}, NoNative: true},
			// two committing threads (possibly on the same table), every synchronisation operation a scheduling point:
			// the snapshot returned by Commit must be the state that Commit published
			{Entry: "VerifC10Threads", Params: map[string]int{"T": 2, "LISTMAX": 1, "KINDMAX": 0, "COMMITONLY": 1}, Covers: []string{"C10.end"}, NoNative: true, Preempt: 2, Budget2: 2, Deadlock: true}},
		Thorough: []HarnessRun{c02(3), {Entry: "VerifC02Atomic", Params: map[string]int{"N": 2, "L": 2}, Covers: []string{"C02.end"}, NoNative: true}},
		Outside: []string{"one run registers a third table while the observed transaction is open", "outside: more than two tables / N writes per transaction; observation points are the synchronisation operations (atomic store/swap, mutex lock/unlock, channel close) executed between WriteTxn's return and the end of Commit/Abort - the states a concurrent reader (one atomic root load) can distinguish; finer instruction-level interleavings and weak memory are not explored",
			"VM-only vocabulary (sync observer): counterexamples are replayed concretely in the VM on the real code"},
	})
	c06 := func(n, l int) HarnessRun {
		return HarnessRun{Entry: "VerifC06Watch", Params: map[string]int{"N": n, "L": l}, Covers: []string{"C06.committed", "C06.aborted", "C06.changed-and-closed", "C06.end"}, NoNative: true}
	}
	c06ps := func(preset, n, l int) HarnessRun {
		return HarnessRun{Entry: "VerifC06Watch", Params: map[string]int{"N": n, "L": l, "PRESET": preset}, Covers: []string{"C06.committed", "C06.aborted", "C06.changed-and-closed", "C06.end"}, NoNative: true}
	}
	reg(&CheckSpec{
		ID: "C06", PkgDir: "statedb",
		// WTXNQ=1: channels of queries made through the write transaction itself after its first write (one query kind per path)
		Quick: []HarnessRun{c06(2, 1), c02(1), c06ps(1, 1, 2), c06ps(2, 1, 2),
			{Entry: "VerifC06Watch", Params: map[string]int{"N": 2, "L": 1, "WTXNQ": 1, "NOMOVE": 1}, Covers: []string{"C06.wtxn-queries", "C06.committed", "C06.aborted", "C06.end"}, NoNative: true},
			{Entry: "VerifKFWtxnGetWatch"}},
		Thorough: []HarnessRun{c06ps(1, 2, 1), c06ps(2, 2, 1), c02(2),
			{Entry: "VerifC06Watch", Params: map[string]int{"N": 2, "L": 1, "WTXNQ": 1}, Covers: []string{"C06.wtxn-queries", "C06.end"}, NoNative: true},},
		Known: []KnownProbe{{ID: "KF-wtxn-get-watch", Entry: "VerifKFWtxnGetWatch"}},
		Outside: []string{"write-transaction queries: one query (Get/List/Prefix/LowerBound/All on the primary index, List on the non-unique and LPM indexes) made after the transaction's first write, its channel must be closed by Commit if a later write of the same transaction changed its result and never by Abort", "outside: a waiting goroutine is modelled by the sync observer (every point at which it could wake up relative to the committer's synchronisation operations); pre-state of two objects; more than N later writes; nothing is asserted about channels that close although the result did not change (allowed)"},
	})
}

func init() {
	rounds := func(focus int, p map[string]int) HarnessRun {
		q := map[string]int{"FOCUS": focus}
		for k, v := range p {
			q[k] = v
		}
		return HarnessRun{Entry: "VerifC14Rounds", Params: q, Covers: []string{"C14.end", "C14.failure", "C16.retry-attempted"}, NoNative: true, Deadlock: true}
	}
	base := map[string]int{"R": 2, "KEYS": 2, "W": 2, "F": 2, "INJECT": 1}
	two := map[string]int{"R": 2, "KEYS": 1, "W": 2, "F": 2, "INJECT": 1, "TWO": 1}
	batch := map[string]int{"R": 2, "KEYS": 2, "W": 2, "F": 2, "INJECT": 0, "BATCH": 1}
	sset := map[string]int{"R": 2, "KEYS": 1, "W": 2, "F": 1, "INJECT": 1, "STATUSSET": 1}
	rs1 := map[string]int{"R": 2, "KEYS": 2, "W": 2, "F": 1, "INJECT": 0, "ROUNDSIZE": 1, "K": 5}
	mid := map[string]int{"R": 3, "KEYS": 2, "W": 2, "F": 2, "INJECT": 1}
	bo := map[string]int{"R": 2, "KEYS": 1, "W": 1, "F": 3, "INJECT": 0, "MINB": 2, "MAXB": 8}
	probe := HarnessRun{Entry: "VerifKFRetryStatusLost"}
	pruneRun := HarnessRun{Entry: "VerifC15Prune", Covers: []string{"C15.prune.end"}, NoNative: true, Deadlock: true}
	// the real refreshLoop as a VM thread; its rate limiter is a scheduling point at which the user may change objects
	refreshRun := HarnessRun{Entry: "VerifC15Refresh", Covers: []string{"C15.refresh.user-write", "C15.refresh.marked", "C15.refresh.end"}, NoNative: true, Deadlock: true, Budget2: 20}
	outside := []string{"outside: rate limiters (stubbed: Wait yields and returns ctx.Err()), hive job restarts, real time (virtual discrete-event time); more than R symbolic rounds + K quiescent rounds, 2 keys, F failure decisions, W user writes; the reconcile loop's select is replaced by the harness calling incremental.run round by round (the real run/commitStatus/processRetries/retries code is executed); choices are explicit forks (payload values symbolic), so the solver contributes little beyond path bookkeeping",
		"VM-only vocabulary (virtual time): counterexamples of VerifC14Rounds are replayed concretely in the VM; VerifKFRetryStatusLost also replays natively"}
	reg(&CheckSpec{ID: "C14", PkgDir: "reconciler",
		Quick:    []HarnessRun{rounds(14, base), rounds(14, two), rounds(14, batch), rounds(14, rs1), probe},
		Thorough: []HarnessRun{rounds(14, mid), rounds(14, bo), rounds(14, map[string]int{"R": 3, "KEYS": 1, "W": 2, "F": 2, "INJECT": 1, "TWO": 1}), rounds(14, map[string]int{"R": 3, "KEYS": 2, "W": 2, "F": 2, "INJECT": 0, "BATCH": 1})},
		Known:    []KnownProbe{{ID: "KF-retry-status-lost", Entry: "VerifKFRetryStatusLost"}},
		Outside:  outside})
	reg(&CheckSpec{ID: "C15", PkgDir: "reconciler",
		Quick:    []HarnessRun{rounds(15, base), rounds(15, two), rounds(15, batch), rounds(15, sset), probe, pruneRun, refreshRun,
			// StatusSet as a persistent value: Set/Pending applied to any earlier version never changes another version
			{Entry: "VerifC15StatusSet", Params: map[string]int{"N": 2, "PRE": 3}, Covers: []string{"C15.statusset.pending", "C15.statusset.end"}, DiffRuns: 20}},
		Thorough: []HarnessRun{rounds(15, mid)},
		Outside:  append([]string{"Refresh: VerifC15Refresh runs the real refreshLoop as a VM thread (two old Done objects, 10 ms refresh interval, up to 3 user writes placed wherever the refresher yields)", "Prune gating: VerifC15Prune runs the real reconcileLoop as a VM thread under virtual time (10 ms prune interval, pending initializer for 0..3 periods, optional explicit Prune() before initialization)"}, outside...)})
	reg(&CheckSpec{ID: "C16", PkgDir: "reconciler",
		Quick: []HarnessRun{
			{Entry: "VerifC16Retries", Params: map[string]int{"N": 3}, Covers: []string{"C16.popped", "C16.timer-fired", "C16.retries.end"}, NoNative: true, Deadlock: true},
			{Entry: "VerifC16Retries", Params: map[string]int{"N": 4, "OPS": 3, "NOBJ": 2}, Covers: []string{"C16.popped", "C16.retries.end"}, NoNative: true, Deadlock: true},
			{Entry: "VerifC16Backoff", Covers: []string{"C16.backoff.end"}, DiffRuns: 2},
			rounds(16, base), rounds(16, bo), rounds(16, rs1)},
		Thorough: []HarnessRun{
			{Entry: "VerifC16Retries", Params: map[string]int{"N": 4}, Covers: []string{"C16.popped", "C16.timer-fired", "C16.retries.end"}, NoNative: true, Deadlock: true},
			{Entry: "VerifC16Retries", Params: map[string]int{"N": 5, "OPS": 3, "NOBJ": 2}, Covers: []string{"C16.popped", "C16.retries.end"}, NoNative: true, Deadlock: true},
			rounds(16, mid)},
		Outside: append([]string{"backoff configurations are concrete ((1,1),(1,4),(2,8),(100,60000) ms, attempts 1..80): math.Pow on floats is evaluated natively by the VM, not encoded; spurious early wake-ups of the retry timer are not violations; WaitUntilReconciled is checked through progressTracker.wait with a cancelled context after every round"}, outside...)})
}
