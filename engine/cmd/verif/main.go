// Command verif: bounded symbolic execution checks for cilium/statedb.
//
//	verif check <ID> [--tier quick|thorough]
//	verif replay <replay.json>
//	verif explore <pkgdir> <Entry> [k=v ...]      (debugging)
package main

import (
	"encoding/json"
	"flag"
	"fmt"
	"os"
	"path/filepath"
	"runtime"
	"sort"
	"strconv"
	"strings"
	"time"

	"symgo/vm"
)

var (
	verifDir = "/verif"
	repoDir  = "/repo"
)

func main() {
	if d := os.Getenv("VERIF_DIR"); d != "" {
		verifDir = d
	}
	if d := os.Getenv("VERIF_REPO"); d != "" {
		repoDir = d
	}
	if len(os.Args) < 2 {
		usage()
	}
	switch os.Args[1] {
	case "check":
		os.Exit(cmdCheck(os.Args[2:]))
	case "replay":
		os.Exit(cmdReplay(os.Args[2:]))
	case "explore":
		os.Exit(cmdExplore(os.Args[2:]))
	case "list":
		for _, id := range sortedKeys(checks) {
			fmt.Println(id)
		}
	default:
		usage()
	}
}

func usage() {
	fmt.Fprintln(os.Stderr, "usage: verif check <ID> [--tier quick|thorough] | verif replay <file> | verif explore <pkgdir> <Entry> [k=v...]")
	os.Exit(2)
}

// harnessOverlay builds the overlay (virtual path -> real file) for a package dir.
func harnessOverlay(pkgDirs []string, withTests bool) map[string]string {
	ov := map[string]string{}
	vfiles, _ := filepath.Glob(filepath.Join(verifDir, "harness/vnd/*.go"))
	for _, f := range vfiles {
		ov[filepath.Join(repoDir, "internal/vnd", filepath.Base(f))] = f
	}
	for _, pd := range pkgDirs {
		hdir := filepath.Join(verifDir, "harness", pd)
		rdir := filepath.Join(repoDir, pd)
		if pd == "statedb" {
			rdir = repoDir
		}
		files, _ := filepath.Glob(filepath.Join(hdir, "*.go"))
		for _, f := range files {
			base := filepath.Base(f)
			if strings.HasSuffix(base, "_test.go") && !withTests {
				continue
			}
			ov[filepath.Join(rdir, "zz_verif_"+base)] = f
		}
	}
	return ov
}

func pkgPathOf(pd string) string {
	if pd == "statedb" {
		return vm.ModulePath
	}
	return vm.ModulePath + "/" + pd
}

func patternOf(pd string) string {
	if pd == "statedb" {
		return "."
	}
	return "./" + pd
}

func loadEnv(pkgDirs []string) (*vm.Env, error) {
	var pats []string
	for _, pd := range pkgDirs {
		pats = append(pats, patternOf(pd))
	}
	pats = append(pats, "./internal/vnd")
	env, err := vm.Load(vm.LoadConfig{RepoDir: repoDir, Patterns: pats, Overlay: harnessOverlay(pkgDirs, false), Tags: "verif"})
	if err != nil {
		return nil, err
	}
	for id, kf := range loadKnown() {
		if kf.Status == "open" {
			env.OpenKnown[id] = true
		}
	}
	return env, nil
}

func cmdExplore(args []string) int {
	if len(args) < 2 {
		usage()
	}
	pd, entry := args[0], args[1]
	params := map[string]int{}
	workers := runtime.NumCPU()
	preempt, deadlock, pbudget := 0, false, 0
	maporder, tmo := false, 30*time.Minute
	for _, kv := range args[2:] {
		if i := strings.IndexByte(kv, '='); i > 0 {
			n, _ := strconv.Atoi(kv[i+1:])
			switch kv[:i] {
			case "workers":
				workers = n
				continue
			case "preempt":
				preempt = n
				continue
			case "pbudget":
				pbudget = n
				continue
			case "deadlock":
				deadlock = n == 1
				continue
			case "maporder":
				maporder = n == 1
				continue
			case "timeout":
				tmo = time.Duration(n) * time.Second
				continue
			}
			params[kv[:i]] = n
		}
	}
	env, err := loadEnv([]string{pd})
	if err != nil {
		fmt.Fprintln(os.Stderr, "load:", err)
		return 2
	}
	fmt.Fprintf(os.Stderr, "loaded in %v\n", env.LoadTime)
	run := HarnessRun{Entry: entry, PkgPath: pkgPathOf(pd), Params: params, Preempt: preempt, Deadlock: deadlock, Budget2: pbudget, MapOrder: maporder}
	res := explore(env, run, workers, "", tmo)
	printResult(res)
	for i, v := range res.Violations {
		p := writeReplay("DBG", pd, run, v, i)
		fmt.Printf("violation %s: %s -> %s\n", v.AssertID, v.Msg, p)
		ok, out := nativeReplay(p)
		fmt.Printf("native reproduced=%v\n%s\n", ok, tail(out, 15))
	}
	return 0
}

func printResult(r *ExploreResult) {
	fmt.Printf("entry=%s params=%v paths=%d status=%v decisions=%d steps=%d maxsteps=%d asserts=%d(+%d trivial) queries=%d solver=%v wall=%v truncated=%v\n",
		r.Run.Entry, r.Run.Params, r.Paths, r.ByStatus, r.Decisions, r.Steps, r.MaxSteps, r.Asserts, r.AssertsTriv, r.Queries, r.SolverTime.Round(time.Millisecond), r.Wall.Round(time.Millisecond), r.Truncated)
	fmt.Printf("  covers=%v known=%v\n", r.Covers, r.Known)
	for _, p := range r.Problems {
		fmt.Printf("  PROBLEM %s\n", firstLines(p, 12))
	}
}

func firstLines(s string, n int) string {
	ls := strings.Split(s, "\n")
	if len(ls) > n {
		ls = ls[:n]
	}
	return strings.Join(ls, "\n")
}

func tail(s string, n int) string {
	ls := strings.Split(strings.TrimRight(s, "\n"), "\n")
	if len(ls) > n {
		ls = ls[len(ls)-n:]
	}
	return strings.Join(ls, "\n")
}

// ---------------------------------------------------------------------

type replayFile struct {
	Property string         `json:"property"`
	PkgDir   string         `json:"pkgdir"`
	Entry    string         `json:"entry"`
	AssertID string         `json:"assert_id"`
	Msg      string         `json:"msg"`
	Params   map[string]int `json:"params"`
	Tape     []vm.TapeEntry `json:"tape"`
	Path     string         `json:"path"`
	Open     []string       `json:"open_known"`
	Preempt  int            `json:"preempt,omitempty"`
	Budget2  int            `json:"preempt_budget,omitempty"`
	Deadlock bool           `json:"deadlock_is_violation,omitempty"`
	MapOrder bool           `json:"symbolic_map_order,omitempty"`
	NoNative bool           `json:"vm_only,omitempty"`
}

func writeReplay(prop, pd string, run HarnessRun, v *vm.Violation, n int) string {
	dir := filepath.Join(verifDir, "out", "replay")
	os.MkdirAll(dir, 0o755)
	p := filepath.Join(dir, fmt.Sprintf("%s-%s-%d.json", prop, run.Entry, n))
	var open []string
	for id, kf := range loadKnown() {
		if kf.Status == "open" {
			open = append(open, id)
		}
	}
	sort.Strings(open)
	rf := replayFile{Property: prop, PkgDir: pd, Entry: run.Entry, AssertID: v.AssertID, Msg: v.Msg, Params: run.Params, Tape: v.Tape, Path: v.Path, Open: open,
		Preempt: run.Preempt, Budget2: run.Budget2, Deadlock: run.Deadlock, MapOrder: run.MapOrder, NoNative: run.NoNative}
	b, _ := json.MarshalIndent(rf, "", " ")
	os.WriteFile(p, b, 0o644)
	return p
}

func cmdReplay(args []string) int {
	fs := flag.NewFlagSet("replay", flag.ExitOnError)
	fs.Parse(args)
	if fs.NArg() < 1 {
		usage()
	}
	// harnesses that use VM-only vocabulary (threads, virtual time, sync
	// observer, logical actors) are replayed concretely in the VM
	if b, err := os.ReadFile(fs.Arg(0)); err == nil {
		var rf replayFile
		if json.Unmarshal(b, &rf) == nil {
			if run, spec := findRun(rf); run != nil && run.NoNative {
				env, err := loadEnv([]string{spec.PkgDir})
				if err != nil {
					fmt.Println("load:", err)
					return 2
				}
				run.PkgPath = pkgPathOf(spec.PkgDir)
				run.Params = rf.Params
				run.Preempt, run.Budget2, run.Deadlock, run.MapOrder = rf.Preempt, rf.Budget2, rf.Deadlock, rf.MapOrder
				v := &vm.Violation{AssertID: rf.AssertID, Tape: rf.Tape}
				if vmReplay(env, *run, v) {
					fmt.Printf("REPRODUCED (concrete re-execution of the real code in the VM; assertion %s)\n", rf.AssertID)
					return 1
				}
				fmt.Println("NOT-REPRODUCED (VM)")
				return 0
			}
		}
	}
	ok, out := nativeReplay(fs.Arg(0))
	fmt.Print(out)
	if ok {
		fmt.Println("REPRODUCED")
		return 1
	}
	fmt.Println("NOT-REPRODUCED")
	return 0
}

// findRun locates the harness run a replay file belongs to.
func findRun(rf replayFile) (*HarnessRun, *CheckSpec) {
	spec := checks[rf.Property]
	if spec == nil {
		for _, s := range checks {
			for _, list := range [][]HarnessRun{s.Quick, s.Thorough} {
				for i := range list {
					if list[i].Entry == rf.Entry && s.PkgDir == rf.PkgDir {
						r := list[i]
						return &r, s
					}
				}
			}
		}
		return nil, nil
	}
	for _, list := range [][]HarnessRun{spec.Quick, spec.Thorough} {
		for i := range list {
			if list[i].Entry == rf.Entry {
				r := list[i]
				return &r, spec
			}
		}
	}
	return nil, nil
}
