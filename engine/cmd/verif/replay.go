package main

import (
	"encoding/json"
	"fmt"
	"os"
	"os/exec"
	"path/filepath"
	"sort"
	"strings"
)

type knownFinding struct {
	Property string `json:"property"`
	ID       string `json:"id"`
	Status   string `json:"status"` // open | fixed
	Commit   string `json:"commit,omitempty"`
	What     string `json:"what"`
}

func loadKnown() map[string]knownFinding {
	out := map[string]knownFinding{}
	b, err := os.ReadFile(filepath.Join(verifDir, "known_findings.json"))
	if err != nil {
		return out
	}
	var f struct {
		Findings []knownFinding `json:"findings"`
	}
	if json.Unmarshal(b, &f) != nil {
		return out
	}
	for _, k := range f.Findings {
		out[k.ID] = k
	}
	return out
}

// goTestNative runs `go test` of the harness package natively with the overlay.
func goTestNative(pd string, env []string) (string, error) {
	tmp, err := os.MkdirTemp("", "verif-replay-")
	if err != nil {
		return "", err
	}
	defer os.RemoveAll(tmp)
	ov := harnessOverlay([]string{pd}, true)
	type ovf struct {
		Replace map[string]string
	}
	b, _ := json.Marshal(ovf{ov})
	ovPath := filepath.Join(tmp, "overlay.json")
	os.WriteFile(ovPath, b, 0o644)
	cmd := exec.Command("timeout", "600", "go", "test", "-tags", "verif", "-vet=off", "-count=1", "-overlay", ovPath, "-run", "^TestVerifReplay$", "-v", patternOf(pd))
	cmd.Dir = repoDir
	cmd.Env = append(os.Environ(), "GOFLAGS=-mod=mod", "GOPROXY=off")
	cmd.Env = append(cmd.Env, env...)
	out, err := cmd.CombinedOutput()
	return string(out), err
}

// nativeReplay replays a counterexample against the real build. It reports
// whether the native run failed the same assertion.
func nativeReplay(path string) (bool, string) {
	b, err := os.ReadFile(path)
	if err != nil {
		return false, err.Error()
	}
	var rf replayFile
	if err := json.Unmarshal(b, &rf); err != nil {
		return false, err.Error()
	}
	abs, _ := filepath.Abs(path)
	out, _ := goTestNative(rf.PkgDir, []string{"VND_TAPE=" + abs, "VND_ENTRY=" + rf.Entry, "VND_OPEN=" + strings.Join(rf.Open, ",")})
	want := "REPLAY-VIOLATION " + rf.AssertID
	for _, l := range strings.Split(out, "\n") {
		if strings.TrimSpace(l) == want {
			return true, out
		}
		// a type-confused unsafe cast has no assertion of its own natively: any failing
		// assertion or panic of the real build on these inputs confirms it
		if rf.AssertID == "memory-safety.unsafe-cast" && strings.HasPrefix(strings.TrimSpace(l), "REPLAY-VIOLATION ") {
			return true, out
		}
	}
	return false, out
}

// nativeDigests runs the harness natively on n seeded random tapes.
func nativeDigests(pd, entry string, params map[string]int, seed uint64, n int, open []string) (map[uint64]string, string, error) {
	var ps []string
	for k, v := range params {
		ps = append(ps, fmt.Sprintf("%s=%d", k, v))
	}
	sort.Strings(ps)
	out, err := goTestNative(pd, []string{"VND_ENTRY=" + entry, fmt.Sprintf("VND_RAND=%d,%d", seed, n), "VND_PARAMS=" + strings.Join(ps, ","), "VND_OPEN=" + strings.Join(open, ",")})
	res := map[uint64]string{}
	for _, l := range strings.Split(out, "\n") {
		f := strings.Fields(l)
		if len(f) == 4 && f[0] == "DIGEST" {
			var s uint64
			fmt.Sscanf(f[1], "%d", &s)
			res[s] = f[2] + " " + f[3]
		}
	}
	if len(res) == 0 && err != nil {
		return res, out, err
	}
	return res, out, nil
}
