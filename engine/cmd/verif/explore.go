package main

import (
	"fmt"
	"os"
	"sort"
	"sync"
	"time"

	"symgo/vm"
)

// HarnessRun is one symbolic exploration of one harness entry.
type HarnessRun struct {
	Entry     string         // function name inside the package
	PkgPath   string         // import path of the harness package
	Params    map[string]int // vnd.Param values
	Covers    []string       // cover points that must be reached
	MaxPaths  int            // safety cap (0 = default)
	Budget    int64
	Preempt   int
	Budget2   int  // preemption budget (default 2)
	Deadlock  bool // a deadlock (all threads blocked) is a violation of the harness property
	MapOrder  bool
	DiffRuns  int // concrete differential runs VM vs native (0 = none)
	NoNative  bool // harness uses VM-only vocabulary (threads/virtual time): no native differential
}

type ExploreResult struct {
	Run          HarnessRun
	Paths        int
	ByStatus     map[string]int
	Decisions    int64
	Steps        int64
	MaxSteps     int64
	Asserts      int
	AssertsTriv  int
	Queries      int
	SolverErrors int
	Unknowns     int
	SolverTime   time.Duration
	Wall         time.Duration
	Covers       map[string]int
	Known        map[string]int
	Violations   []*vm.Violation
	Problems     []string // inconclusive / unsupported / budget messages
	Samples      [][]vm.TapeEntry
	Funcs        map[string]bool
	Truncated    bool
	DistinctSigs int
}

type explorer struct {
	env     *vm.Env
	run     HarnessRun
	workers int
	cross   string

	mu      sync.Mutex
	cond    *sync.Cond
	stack   [][]vm.Decision
	active  int
	stop    bool
	res     *ExploreResult
	maxViol int
	deadline time.Time
}

func explore(env *vm.Env, run HarnessRun, workers int, cross string, timeout time.Duration) *ExploreResult {
	ex := &explorer{env: env, run: run, workers: workers, cross: cross, maxViol: 3}
	ex.cond = sync.NewCond(&ex.mu)
	ex.res = &ExploreResult{Run: run, ByStatus: map[string]int{}, Covers: map[string]int{}, Known: map[string]int{}, Funcs: map[string]bool{}}
	ex.stack = [][]vm.Decision{nil}
	ex.deadline = time.Now().Add(timeout)
	maxPaths := run.MaxPaths
	if maxPaths == 0 {
		maxPaths = 2_000_000
	}
	t0 := time.Now()
	env.Params = run.Params
	var wg sync.WaitGroup
	if os.Getenv("VERIF_PROGRESS") != "" {
		go func() {
			for {
				time.Sleep(10 * time.Second)
				ex.mu.Lock()
				if ex.stop || (len(ex.stack) == 0 && ex.active == 0) {
					ex.mu.Unlock()
					return
				}
				fmt.Fprintf(os.Stderr, "progress: paths=%d stack=%d active=%d status=%v\n", ex.res.Paths, len(ex.stack), ex.active, ex.res.ByStatus)
				ex.mu.Unlock()
			}
		}()
	}
	for w := 0; w < workers; w++ {
		wg.Add(1)
		go func(id int) {
			defer wg.Done()
			wk, err := env.NewWorker("z3", 20000, cross)
			if err != nil {
				ex.mu.Lock()
				ex.res.Problems = append(ex.res.Problems, "cannot start solver: "+err.Error())
				ex.stop = true
				ex.cond.Broadcast()
				ex.mu.Unlock()
				return
			}
			defer wk.Close()
			for {
				ex.mu.Lock()
				for len(ex.stack) == 0 && ex.active > 0 && !ex.stop {
					ex.cond.Wait()
				}
				if ex.stop || len(ex.stack) == 0 {
					ex.mu.Unlock()
					break
				}
				prefix := ex.stack[len(ex.stack)-1]
				ex.stack = ex.stack[:len(ex.stack)-1]
				ex.active++
				npaths := ex.res.Paths
				ex.mu.Unlock()

				out := wk.Run(vm.RunOpts{
					Entry: run.PkgPath + "." + run.Entry, Prefix: prefix, Budget: run.Budget,
					WantSample: npaths < 12 || os.Getenv("VERIF_DUMP_PATHS") != "", CrossCheck: cross != "", CollectFns: true,
					Preempt: run.Preempt, SymMapOrder: run.MapOrder, DeadlockViolation: run.Deadlock, PreemptBudget: run.Budget2,
				})

				ex.mu.Lock()
				ex.active--
				r := ex.res
				r.Paths++
				r.ByStatus[out.Status]++
				r.Decisions += int64(len(out.Decisions))
				r.Steps += out.Steps
				if out.Steps > r.MaxSteps {
					r.MaxSteps = out.Steps
				}
				r.Asserts += out.Asserts
				r.AssertsTriv += out.AssertsTrv
				for c := range out.Covers {
					r.Covers[c]++
				}
				for k := range out.Known {
					r.Known[k]++
				}
				if out.Sample != nil && len(r.Samples) < 12 {
					r.Samples = append(r.Samples, out.Sample)
				}
				if os.Getenv("VERIF_DUMP_PATHS") != "" && r.Paths%97 == 0 {
					fmt.Fprintf(os.Stderr, "PATH %v %v\n", out.Decisions, out.Sample)
				}
				switch out.Status {
				case "ok", "assume":
				case "violation":
					if out.Violation != nil {
						r.Violations = append(r.Violations, out.Violation)
					}
					if len(r.Violations) >= ex.maxViol {
						ex.stop = true
					}
				default:
					if len(r.Problems) < 20 {
						r.Problems = append(r.Problems, fmt.Sprintf("%s: %s (path %v)", out.Status, out.Msg, out.Decisions))
					}
					if len(r.Problems) >= 20 {
						ex.stop = true
					}
				}
				for _, alt := range out.NewAlts {
					ex.stack = append(ex.stack, alt)
				}
				if r.Paths >= maxPaths || time.Now().After(ex.deadline) {
					r.Truncated = true
					ex.stop = true
				}
				ex.cond.Broadcast()
				ex.mu.Unlock()
			}
			q, e, u, st := wk.SolverStats()
			ex.mu.Lock()
			ex.res.Queries += q
			ex.res.SolverErrors += e
			ex.res.Unknowns += u
			ex.res.SolverTime += st
			for f := range wk.Funcs {
				ex.res.Funcs[f] = true
			}
			ex.cond.Broadcast()
			ex.mu.Unlock()
		}(w)
	}
	wg.Wait()
	if len(ex.stack) > 0 && len(ex.res.Violations) == 0 {
		ex.res.Truncated = true
	}
	ex.res.Wall = time.Since(t0)
	return ex.res
}

func sortedKeys[V any](m map[string]V) []string {
	var ks []string
	for k := range m {
		ks = append(ks, k)
	}
	sort.Strings(ks)
	return ks
}
