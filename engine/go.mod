module symgo

go 1.26.8

require golang.org/x/tools v0.50.0
