module symgo

go 1.26.8

require (
	go.yaml.in/yaml/v3 v3.0.4
	golang.org/x/tools v0.50.0
)

require (
	golang.org/x/mod v0.41.0 // indirect
	golang.org/x/sync v0.23.0 // indirect
)
