// Package smt: term DAG over SMT-LIB bit-vectors and booleans, with
// hash-consing and constant folding, and a pipe to an incremental solver.
package smt

import (
	"fmt"
	"math/bits"
	"strconv"
	"strings"
)

type Op uint8

const (
	OpConst Op = iota
	OpVar
	OpNot
	OpAnd
	OpOr
	OpIte
	OpEq
	OpAdd
	OpSub
	OpMul
	OpUDiv
	OpSDiv
	OpURem
	OpSRem
	OpBAnd
	OpBOr
	OpBXor
	OpBNot
	OpNeg
	OpShl
	OpLshr
	OpAshr
	OpUlt
	OpUle
	OpSlt
	OpSle
	OpZext    // P1 = extra bits
	OpSext    // P1 = extra bits
	OpExtract // P1 = hi, P2 = lo
	OpConcat
)

var opNames = map[Op]string{
	OpNot: "not", OpAnd: "and", OpOr: "or", OpIte: "ite", OpEq: "=",
	OpAdd: "bvadd", OpSub: "bvsub", OpMul: "bvmul", OpUDiv: "bvudiv", OpSDiv: "bvsdiv",
	OpURem: "bvurem", OpSRem: "bvsrem", OpBAnd: "bvand", OpBOr: "bvor", OpBXor: "bvxor",
	OpBNot: "bvnot", OpNeg: "bvneg", OpShl: "bvshl", OpLshr: "bvlshr", OpAshr: "bvashr",
	OpUlt: "bvult", OpUle: "bvule", OpSlt: "bvslt", OpSle: "bvsle", OpConcat: "concat",
}

// Term is an immutable node. W == 0 means Bool, otherwise bit-vector width (<= 64).
type Term struct {
	Op     Op
	W      int
	Args   []*Term
	C      uint64 // constant value (masked), bool: 0/1
	Name   string // variable name
	P1, P2 int
	ID     uint32
}

func (t *Term) IsConst() bool { return t.Op == OpConst }
func (t *Term) IsBool() bool  { return t.W == 0 }

// Builder hash-conses terms. Not safe for concurrent use: one per worker.
type Builder struct {
	tab    map[string]*Term
	nextID uint32
	keybuf []byte
	True   *Term
	False  *Term
	nvars  int
}

func NewBuilder() *Builder {
	b := &Builder{}
	b.Reset()
	return b
}

func (b *Builder) Reset() {
	b.tab = make(map[string]*Term, 1024)
	b.nextID = 0
	b.nvars = 0
	b.True = b.mk(&Term{Op: OpConst, W: 0, C: 1})
	b.False = b.mk(&Term{Op: OpConst, W: 0, C: 0})
}

func (b *Builder) NumTerms() int { return int(b.nextID) }

func (b *Builder) mk(t *Term) *Term {
	k := b.keybuf[:0]
	k = append(k, byte(t.Op), byte(t.W))
	k = strconv.AppendUint(k, t.C, 16)
	k = append(k, ',')
	k = strconv.AppendInt(k, int64(t.P1), 10)
	k = append(k, ',')
	k = strconv.AppendInt(k, int64(t.P2), 10)
	k = append(k, ',')
	k = append(k, t.Name...)
	for _, a := range t.Args {
		k = append(k, ',')
		k = strconv.AppendUint(k, uint64(a.ID), 16)
	}
	b.keybuf = k
	if e, ok := b.tab[string(k)]; ok {
		return e
	}
	t.ID = b.nextID
	b.nextID++
	b.tab[string(k)] = t
	return t
}

func mask(w int) uint64 {
	if w >= 64 {
		return ^uint64(0)
	}
	return (uint64(1) << uint(w)) - 1
}

func sext64(c uint64, w int) int64 {
	if w >= 64 {
		return int64(c)
	}
	sh := uint(64 - w)
	return int64(c<<sh) >> sh
}

func (b *Builder) Const(w int, c uint64) *Term {
	if w == 0 {
		if c != 0 {
			return b.True
		}
		return b.False
	}
	return b.mk(&Term{Op: OpConst, W: w, C: c & mask(w)})
}

func (b *Builder) Bool(v bool) *Term {
	if v {
		return b.True
	}
	return b.False
}

// Var creates a fresh variable of width w (0 = Bool) with a unique name built from tag.
func (b *Builder) Var(w int, tag string) *Term {
	name := fmt.Sprintf("v%d_%s", b.nvars, sanitize(tag))
	b.nvars++
	return b.mk(&Term{Op: OpVar, W: w, Name: name})
}

func sanitize(s string) string {
	var sb strings.Builder
	for _, r := range s {
		if r >= 'a' && r <= 'z' || r >= 'A' && r <= 'Z' || r >= '0' && r <= '9' || r == '_' {
			sb.WriteRune(r)
		} else {
			sb.WriteByte('_')
		}
	}
	return sb.String()
}

func (b *Builder) Not(x *Term) *Term {
	if x.IsConst() {
		return b.Bool(x.C == 0)
	}
	if x.Op == OpNot {
		return x.Args[0]
	}
	return b.mk(&Term{Op: OpNot, Args: []*Term{x}})
}

func (b *Builder) And(x, y *Term) *Term {
	if x.IsConst() {
		if x.C == 0 {
			return b.False
		}
		return y
	}
	if y.IsConst() {
		if y.C == 0 {
			return b.False
		}
		return x
	}
	if x == y {
		return x
	}
	if x.ID > y.ID {
		x, y = y, x
	}
	return b.mk(&Term{Op: OpAnd, Args: []*Term{x, y}})
}

func (b *Builder) Or(x, y *Term) *Term {
	if x.IsConst() {
		if x.C != 0 {
			return b.True
		}
		return y
	}
	if y.IsConst() {
		if y.C != 0 {
			return b.True
		}
		return x
	}
	if x == y {
		return x
	}
	if x.ID > y.ID {
		x, y = y, x
	}
	return b.mk(&Term{Op: OpOr, Args: []*Term{x, y}})
}

func (b *Builder) Ite(c, x, y *Term) *Term {
	if c.IsConst() {
		if c.C != 0 {
			return x
		}
		return y
	}
	if x == y {
		return x
	}
	if x.W == 0 && x.IsConst() && y.IsConst() {
		// ite(c, true, false) = c ; ite(c,false,true) = !c
		if x.C != 0 {
			return c
		}
		return b.Not(c)
	}
	return b.mk(&Term{Op: OpIte, W: x.W, Args: []*Term{c, x, y}})
}

func (b *Builder) Eq(x, y *Term) *Term {
	if x.W != y.W {
		panic(fmt.Sprintf("smt.Eq: width mismatch %d vs %d", x.W, y.W))
	}
	if x == y {
		return b.True
	}
	if x.IsConst() && y.IsConst() {
		return b.Bool(x.C == y.C)
	}
	if x.W == 0 {
		if x.IsConst() {
			if x.C != 0 {
				return y
			}
			return b.Not(y)
		}
		if y.IsConst() {
			if y.C != 0 {
				return x
			}
			return b.Not(x)
		}
	}
	if x.ID > y.ID {
		x, y = y, x
	}
	return b.mk(&Term{Op: OpEq, Args: []*Term{x, y}})
}

// Bin builds a binary bit-vector operation (arithmetic or comparison).
func (b *Builder) Bin(op Op, x, y *Term) *Term {
	if x.W != y.W || x.W == 0 {
		panic(fmt.Sprintf("smt.Bin %v: width mismatch %d vs %d", opNames[op], x.W, y.W))
	}
	w := x.W
	if x.IsConst() && y.IsConst() {
		if r, ok := foldBin(op, w, x.C, y.C); ok {
			switch op {
			case OpUlt, OpUle, OpSlt, OpSle:
				return b.Bool(r != 0)
			}
			return b.Const(w, r)
		}
	}
	rw := w
	switch op {
	case OpUlt, OpUle, OpSlt, OpSle:
		rw = 0
		if x == y {
			return b.Bool(op == OpUle || op == OpSle)
		}
	case OpAdd, OpBOr, OpBXor:
		if x.IsConst() && x.C == 0 {
			return y
		}
		if y.IsConst() && y.C == 0 {
			return x
		}
	case OpSub, OpShl, OpLshr:
		if y.IsConst() && y.C == 0 {
			return x
		}
	case OpBAnd:
		if x.IsConst() && x.C == 0 || y.IsConst() && y.C == 0 {
			return b.Const(w, 0)
		}
		if x.IsConst() && x.C == mask(w) {
			return y
		}
		if y.IsConst() && y.C == mask(w) {
			return x
		}
	case OpMul:
		if x.IsConst() && x.C == 1 {
			return y
		}
		if y.IsConst() && y.C == 1 {
			return x
		}
	}
	return b.mk(&Term{Op: op, W: rw, Args: []*Term{x, y}})
}

func foldBin(op Op, w int, x, y uint64) (uint64, bool) {
	m := mask(w)
	sx, sy := sext64(x, w), sext64(y, w)
	bo := func(v bool) (uint64, bool) {
		if v {
			return 1, true
		}
		return 0, true
	}
	switch op {
	case OpAdd:
		return (x + y) & m, true
	case OpSub:
		return (x - y) & m, true
	case OpMul:
		return (x * y) & m, true
	case OpUDiv:
		if y == 0 {
			return m, true
		}
		return (x / y) & m, true
	case OpURem:
		if y == 0 {
			return x, true
		}
		return (x % y) & m, true
	case OpSDiv:
		if y == 0 {
			return 0, false
		}
		if sy == -1 {
			return uint64(-sx) & m, true
		}
		return uint64(sx/sy) & m, true
	case OpSRem:
		if y == 0 {
			return 0, false
		}
		if sy == -1 {
			return 0, true
		}
		return uint64(sx%sy) & m, true
	case OpBAnd:
		return x & y, true
	case OpBOr:
		return x | y, true
	case OpBXor:
		return x ^ y, true
	case OpShl:
		if y >= uint64(w) {
			return 0, true
		}
		return (x << y) & m, true
	case OpLshr:
		if y >= uint64(w) {
			return 0, true
		}
		return x >> y, true
	case OpAshr:
		if y >= uint64(w) {
			y = uint64(w - 1)
		}
		return uint64(sx>>y) & m, true
	case OpUlt:
		return bo(x < y)
	case OpUle:
		return bo(x <= y)
	case OpSlt:
		return bo(sx < sy)
	case OpSle:
		return bo(sx <= sy)
	}
	return 0, false
}

func (b *Builder) BNot(x *Term) *Term {
	if x.IsConst() {
		return b.Const(x.W, ^x.C)
	}
	return b.mk(&Term{Op: OpBNot, W: x.W, Args: []*Term{x}})
}

func (b *Builder) Neg(x *Term) *Term {
	if x.IsConst() {
		return b.Const(x.W, -x.C)
	}
	return b.mk(&Term{Op: OpNeg, W: x.W, Args: []*Term{x}})
}

func (b *Builder) Zext(x *Term, to int) *Term {
	if to == x.W {
		return x
	}
	if x.IsConst() {
		return b.Const(to, x.C)
	}
	return b.mk(&Term{Op: OpZext, W: to, P1: to - x.W, Args: []*Term{x}})
}

func (b *Builder) Sext(x *Term, to int) *Term {
	if to == x.W {
		return x
	}
	if x.IsConst() {
		return b.Const(to, uint64(sext64(x.C, x.W)))
	}
	return b.mk(&Term{Op: OpSext, W: to, P1: to - x.W, Args: []*Term{x}})
}

// Extract bits hi..lo (inclusive).
func (b *Builder) Extract(x *Term, hi, lo int) *Term {
	if lo == 0 && hi == x.W-1 {
		return x
	}
	if x.IsConst() {
		return b.Const(hi-lo+1, x.C>>uint(lo))
	}
	if lo == 0 && (x.Op == OpZext || x.Op == OpSext) && hi < x.Args[0].W {
		return b.Extract(x.Args[0], hi, lo)
	}
	return b.mk(&Term{Op: OpExtract, W: hi - lo + 1, P1: hi, P2: lo, Args: []*Term{x}})
}

func (b *Builder) Concat(hi, lo *Term) *Term {
	if hi.IsConst() && lo.IsConst() {
		return b.Const(hi.W+lo.W, hi.C<<uint(lo.W)|lo.C)
	}
	return b.mk(&Term{Op: OpConcat, W: hi.W + lo.W, Args: []*Term{hi, lo}})
}

// BoolToBV converts a Bool term to a 1/0 bit-vector of width w.
func (b *Builder) BoolToBV(c *Term, w int) *Term {
	return b.Ite(c, b.Const(w, 1), b.Const(w, 0))
}

func sortOf(t *Term) string {
	if t.W == 0 {
		return "Bool"
	}
	return fmt.Sprintf("(_ BitVec %d)", t.W)
}

func constStr(t *Term) string {
	if t.W == 0 {
		if t.C != 0 {
			return "true"
		}
		return "false"
	}
	if t.W%4 == 0 {
		return fmt.Sprintf("#x%0*x", t.W/4, t.C)
	}
	return fmt.Sprintf("#b%0*b", t.W, t.C)
}

// Eval evaluates t under the model (variable name -> value). Missing variables are 0.
func Eval(t *Term, model map[string]uint64, memo map[*Term]uint64) uint64 {
	if v, ok := memo[t]; ok {
		return v
	}
	var r uint64
	a := func(i int) uint64 { return Eval(t.Args[i], model, memo) }
	switch t.Op {
	case OpConst:
		r = t.C
	case OpVar:
		r = model[t.Name] & mask64(t.W)
	case OpNot:
		r = 1 - a(0)
	case OpAnd:
		r = a(0) & a(1)
	case OpOr:
		r = a(0) | a(1)
	case OpIte:
		if a(0) != 0 {
			r = a(1)
		} else {
			r = a(2)
		}
	case OpEq:
		if a(0) == a(1) {
			r = 1
		}
	case OpBNot:
		r = ^a(0) & mask(t.W)
	case OpNeg:
		r = -a(0) & mask(t.W)
	case OpZext:
		r = a(0)
	case OpSext:
		r = uint64(sext64(a(0), t.Args[0].W)) & mask(t.W)
	case OpExtract:
		r = (a(0) >> uint(t.P2)) & mask(t.W)
	case OpConcat:
		r = a(0)<<uint(t.Args[1].W) | a(1)
	default:
		x, y := a(0), a(1)
		w := t.Args[0].W
		v, ok := foldBin(t.Op, w, x, y)
		if !ok {
			// signed div/rem by zero (SMT-LIB semantics); never relied upon
			// because Go's division-by-zero panic is checked before.
			v = 0
		}
		r = v
	}
	memo[t] = r
	return r
}

func mask64(w int) uint64 {
	if w == 0 {
		return 1
	}
	return mask(w)
}

var _ = bits.Len
