package smt

import (
	"bufio"
	"fmt"
	"io"
	"os/exec"
	"strconv"
	"strings"
	"time"
)

type Result int

const (
	Unknown Result = iota
	Sat
	Unsat
)

func (r Result) String() string {
	switch r {
	case Sat:
		return "sat"
	case Unsat:
		return "unsat"
	}
	return "unknown"
}

// Solver is one incremental solver process (z3 -in, or cvc5 --incremental).
// Every command is also forwarded to Mirror (if set) so that a second solver
// can be asked the same assertion queries (cross-check).
type Solver struct {
	Name    string
	cmd     *exec.Cmd
	in      io.WriteCloser
	out     *bufio.Reader
	buf     strings.Builder
	defined map[uint32]int // term id -> push level at which it was defined
	levels  [][]uint32
	Mirror  *Solver

	Queries   int
	Errors    int
	Unknowns  int
	Retries   int
	SolveTime time.Duration
	LastError string
}

// Start launches a solver. kind: "z3", "z3-new", "cvc5".
func Start(kind string, timeoutMs int) (*Solver, error) {
	var cmd *exec.Cmd
	switch kind {
	case "z3", "z3-new":
		cmd = exec.Command(kind, "-in", "-smt2", fmt.Sprintf("-t:%d", timeoutMs))
	case "cvc5":
		cmd = exec.Command("cvc5", "--incremental", "--lang=smt2", "--produce-models", fmt.Sprintf("--tlimit-per=%d", timeoutMs))
	default:
		return nil, fmt.Errorf("unknown solver %q", kind)
	}
	in, err := cmd.StdinPipe()
	if err != nil {
		return nil, err
	}
	out, err := cmd.StdoutPipe()
	if err != nil {
		return nil, err
	}
	cmd.Stderr = cmd.Stdout
	if err := cmd.Start(); err != nil {
		return nil, err
	}
	s := &Solver{Name: kind, cmd: cmd, in: in, out: bufio.NewReaderSize(out, 1<<16)}
	s.initCtx()
	if kind == "cvc5" {
		s.send("(set-logic ALL)\n")
	}
	return s, nil
}

func (s *Solver) initCtx() {
	s.defined = make(map[uint32]int)
	s.levels = [][]uint32{nil}
}

func (s *Solver) Close() {
	if s == nil {
		return
	}
	s.in.Close()
	s.cmd.Process.Kill()
	s.cmd.Wait()
	if s.Mirror != nil {
		s.Mirror.Close()
	}
}

func (s *Solver) send(str string) {
	s.buf.WriteString(str)
}

func (s *Solver) flush() {
	if s.buf.Len() > 0 {
		io.WriteString(s.in, s.buf.String())
		s.buf.Reset()
	}
}

// Reset clears all assertions and declarations.
func (s *Solver) Reset() {
	s.send("(reset)\n")
	if s.Name == "cvc5" {
		s.send("(set-logic ALL)\n")
	}
	s.initCtx()
	if s.Mirror != nil {
		s.Mirror.Reset()
	}
}

func (s *Solver) Declare(v *Term) {
	s.send(fmt.Sprintf("(declare-const %s %s)\n", v.Name, sortOf(v)))
	if s.Mirror != nil {
		s.Mirror.Declare(v)
	}
}

func (s *Solver) Push() {
	s.send("(push 1)\n")
	s.levels = append(s.levels, nil)
	if s.Mirror != nil {
		s.Mirror.Push()
	}
}

func (s *Solver) Pop() {
	s.send("(pop 1)\n")
	top := s.levels[len(s.levels)-1]
	for _, id := range top {
		delete(s.defined, id)
	}
	s.levels = s.levels[:len(s.levels)-1]
	if s.Mirror != nil {
		s.Mirror.Pop()
	}
}

// ref returns the textual reference for t, emitting define-funs for internal
// nodes that are not yet defined in the current context.
func (s *Solver) ref(t *Term) string {
	switch t.Op {
	case OpConst:
		return constStr(t)
	case OpVar:
		return t.Name
	}
	if _, ok := s.defined[t.ID]; ok {
		return "t" + strconv.FormatUint(uint64(t.ID), 10)
	}
	args := make([]string, len(t.Args))
	for i, a := range t.Args {
		args[i] = s.ref(a)
	}
	var body string
	switch t.Op {
	case OpZext:
		body = fmt.Sprintf("((_ zero_extend %d) %s)", t.P1, args[0])
	case OpSext:
		body = fmt.Sprintf("((_ sign_extend %d) %s)", t.P1, args[0])
	case OpExtract:
		body = fmt.Sprintf("((_ extract %d %d) %s)", t.P1, t.P2, args[0])
	default:
		body = "(" + opNames[t.Op] + " " + strings.Join(args, " ") + ")"
	}
	name := "t" + strconv.FormatUint(uint64(t.ID), 10)
	s.send(fmt.Sprintf("(define-fun %s () %s %s)\n", name, sortOf(t), body))
	lvl := len(s.levels) - 1
	s.defined[t.ID] = lvl
	s.levels[lvl] = append(s.levels[lvl], t.ID)
	return name
}

func (s *Solver) Assert(t *Term) {
	r := s.ref(t)
	s.send("(assert " + r + ")\n")
	if s.Mirror != nil {
		s.Mirror.Assert(t)
	}
}

// Check runs (check-sat) on this solver only (not the mirror).
func (s *Solver) Check() Result {
	r := s.check1()
	if r == Unknown && s.LastError == "" {
		// a soft time-out on a loaded machine: ask once more before giving up
		s.Unknowns--
		s.Retries++
		r = s.check1()
	}
	return r
}

func (s *Solver) check1() Result {
	s.send("(check-sat)\n")
	s.flush()
	s.Queries++
	t0 := time.Now()
	defer func() { s.SolveTime += time.Since(t0) }()
	for {
		line, err := s.out.ReadString('\n')
		if err != nil {
			s.Errors++
			s.LastError = "solver pipe: " + err.Error()
			return Unknown
		}
		line = strings.TrimSpace(line)
		switch {
		case line == "sat":
			return Sat
		case line == "unsat":
			return Unsat
		case line == "unknown" || line == "timeout":
			s.Unknowns++
			return Unknown
		case strings.HasPrefix(line, "(error"):
			s.Errors++
			s.LastError = line
			// keep reading: the check-sat answer still follows, but the
			// result is not to be trusted.
			res := s.drainAnswer()
			_ = res
			return Unknown
		case line == "":
		default:
			// unexpected output (warnings): treat as inconclusive marker
			s.LastError = line
		}
	}
}

func (s *Solver) drainAnswer() Result {
	for {
		line, err := s.out.ReadString('\n')
		if err != nil {
			return Unknown
		}
		line = strings.TrimSpace(line)
		switch line {
		case "sat":
			return Sat
		case "unsat":
			return Unsat
		case "unknown", "timeout":
			return Unknown
		}
	}
}

// CheckWith checks satisfiability of the current assertions plus extra, without
// changing the assertion stack.
func (s *Solver) CheckWith(extra *Term) Result {
	s.pushOnly()
	r := s.ref(extra)
	s.send("(assert " + r + ")\n")
	res := s.Check()
	s.popOnly()
	return res
}

// CrossCheckWith asks the mirror solver (if any) the same query; returns the
// mirror's verdict or the given one if there is no mirror.
func (s *Solver) CrossCheckWith(extra *Term, mine Result) (Result, bool) {
	if s.Mirror == nil {
		return mine, true
	}
	other := s.Mirror.CheckWith(extra)
	return other, other == mine
}

func (s *Solver) pushOnly() {
	s.send("(push 1)\n")
	s.levels = append(s.levels, nil)
}

func (s *Solver) popOnly() {
	s.send("(pop 1)\n")
	top := s.levels[len(s.levels)-1]
	for _, id := range top {
		delete(s.defined, id)
	}
	s.levels = s.levels[:len(s.levels)-1]
}

// CheckWithModel is like CheckWith but on Sat also returns the values of vars.
func (s *Solver) CheckWithModel(extra *Term, vars []*Term) (Result, map[string]uint64) {
	s.pushOnly()
	if extra != nil {
		r := s.ref(extra)
		s.send("(assert " + r + ")\n")
	}
	res := s.Check()
	var m map[string]uint64
	if res == Sat {
		m = s.getValues(vars)
	}
	s.popOnly()
	return res, m
}

func (s *Solver) getValues(vars []*Term) map[string]uint64 {
	m := make(map[string]uint64)
	if len(vars) == 0 {
		return m
	}
	var sb strings.Builder
	sb.WriteString("(get-value (")
	for _, v := range vars {
		sb.WriteString(v.Name)
		sb.WriteByte(' ')
	}
	sb.WriteString("))\n")
	s.send(sb.String())
	s.flush()
	// read a balanced s-expression
	depth := 0
	started := false
	var txt strings.Builder
	for {
		c, err := s.out.ReadByte()
		if err != nil {
			s.Errors++
			return m
		}
		txt.WriteByte(c)
		if c == '(' {
			depth++
			started = true
		} else if c == ')' {
			depth--
		}
		if started && depth == 0 {
			break
		}
	}
	str := txt.String()
	if strings.Contains(str, "(error") {
		s.Errors++
		s.LastError = str
		return m
	}
	// tokens: ((name val) (name val))
	str = strings.NewReplacer("(", " ", ")", " ").Replace(str)
	f := strings.Fields(str)
	for i := 0; i+1 < len(f); i += 2 {
		name, val := f[i], f[i+1]
		switch {
		case val == "true":
			m[name] = 1
		case val == "false":
			m[name] = 0
		case strings.HasPrefix(val, "#x"):
			u, _ := strconv.ParseUint(val[2:], 16, 64)
			m[name] = u
		case strings.HasPrefix(val, "#b"):
			u, _ := strconv.ParseUint(val[2:], 2, 64)
			m[name] = u
		case val == "_":
			// (_ bv10 8) form: "_", "bv10", "8"
			if i+3 < len(f) && strings.HasPrefix(f[i+2], "bv") {
				u, _ := strconv.ParseUint(f[i+2][2:], 10, 64)
				m[name] = u
				i += 2
			}
		}
	}
	return m
}
