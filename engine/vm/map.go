package vm

// omap: insertion-ordered map used for every Go map in the VM, so that
// iteration is deterministic across re-executions of a path. Keys that contain
// symbolic parts are resolved by solver-decided equality (association list).

import (
	"fmt"
	"go/types"
)

type hashable interface {
	hash(t types.Type) int
	eq(t types.Type, x any) bool
}

type oentry struct {
	k, v value
	live bool
}

type omap struct {
	kt      types.Type
	simple  bool // key is basic/pointer/chan: host-hashable
	ents    []oentry
	idx     map[value]int // simple keys
	hidx    map[int][]int // complex keys: hash -> entry indexes
	n       int
	symKeys int // number of live entries whose key contains symbolic parts
}

func makeMap(kt types.Type, reserve int64) value {
	m := &omap{kt: kt, simple: usesBuiltinMap(kt)}
	if m.simple {
		m.idx = make(map[value]int)
	} else {
		m.hidx = make(map[int][]int)
	}
	return m
}

func (m *omap) len() int {
	if m == nil {
		return 0
	}
	return m.n
}

func (m *omap) clear() {
	m.ents = nil
	m.n = 0
	m.symKeys = 0
	if m.simple {
		m.idx = make(map[value]int)
	} else {
		m.hidx = make(map[int][]int)
	}
}

// find returns the index of the entry with key k, or -1.
func (m *omap) find(mc *machine, k value) int {
	if m == nil {
		return -1
	}
	ksym := hasSymDeep(k)
	if ksym || m.symKeys > 0 {
		// association list with solver-decided equality
		for i := range m.ents {
			e := &m.ents[i]
			if !e.live {
				continue
			}
			if !ksym && !hasSymDeep(e.k) {
				if m.concEq(k, e.k) {
					return i
				}
				continue
			}
			if mc.branch(mc.eqTerm(m.kt, k, e.k)) {
				return i
			}
		}
		return -1
	}
	if m.simple {
		if i, ok := m.idx[k]; ok {
			return i
		}
		return -1
	}
	h := hash(m.kt, m.kt, k)
	for _, i := range m.hidx[h] {
		if m.ents[i].live && equals(m.kt, k, m.ents[i].k) {
			return i
		}
	}
	return -1
}

func (m *omap) concEq(a, b value) bool {
	return equals(m.kt, a, b)
}

func (m *omap) get(mc *machine, k value) (value, bool) {
	i := m.find(mc, k)
	if i < 0 {
		return nil, false
	}
	return m.ents[i].v, true
}

func (m *omap) set(mc *machine, k, v value) {
	if i := m.find(mc, k); i >= 0 {
		m.ents[i].v = v
		return
	}
	m.ents = append(m.ents, oentry{k, v, true})
	i := len(m.ents) - 1
	m.n++
	if hasSymDeep(k) {
		m.symKeys++
		return
	}
	if m.simple {
		m.idx[k] = i
	} else {
		h := hash(m.kt, m.kt, k)
		m.hidx[h] = append(m.hidx[h], i)
	}
}

func (m *omap) delete(mc *machine, k value) {
	i := m.find(mc, k)
	if i < 0 {
		return
	}
	e := &m.ents[i]
	e.live = false
	m.n--
	if hasSymDeep(e.k) {
		m.symKeys--
	} else if m.simple {
		delete(m.idx, e.k)
	}
	e.k, e.v = nil, nil
}

type omapIter struct {
	m     *omap
	order []int
	pos   int
}

// iter snapshots the live entries. If the machine asks for symbolic map order
// the order is a symbolic permutation choice (small maps only).
func (m *omap) iter(mc *machine) iter {
	it := &omapIter{m: m}
	if m == nil {
		return it
	}
	for i := range m.ents {
		if m.ents[i].live {
			it.order = append(it.order, i)
		}
	}
	if mc.symMapOrder && len(it.order) > 1 && len(it.order) <= 3 {
		// choose a permutation
		n := len(it.order)
		perm := make([]int, 0, n)
		rest := append([]int(nil), it.order...)
		for len(rest) > 0 {
			k := mc.chooseRec(len(rest), "maporder")
			perm = append(perm, rest[k])
			rest = append(rest[:k], rest[k+1:]...)
		}
		it.order = perm
	}
	return it
}

func (it *omapIter) next() tuple {
	for it.pos < len(it.order) {
		i := it.order[it.pos]
		it.pos++
		if i < len(it.m.ents) && it.m.ents[i].live {
			e := it.m.ents[i]
			return tuple{true, e.k, e.v}
		}
	}
	return tuple{false, nil, nil}
}

func (m *omap) String() string { return fmt.Sprintf("omap(%d)", m.len()) }
