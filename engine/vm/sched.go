package vm

// Channels, threads, mutexes, timers and the lock monitor.

import (
	"fmt"
	"sort"
	"strings"
)

type vchan struct {
	buf    []value
	cap    int
	closed bool
	id     int
	// rendezvous for unbuffered channels
	sendq []*pendingSend
	recvq int // number of receivers currently blocked (for unbuffered send readiness)
}

type pendingSend struct {
	v     value
	taken bool
}

type thread struct {
	id      int
	name    string
	wake    chan bool // true = run, false = kill
	blocked func() bool
	done    bool
	started bool
	held    []*vmutex
	actor   int
}

type threadKill struct{}

type vmutex struct {
	id      int
	owner   *thread // nil = unlocked
	ownerA  int     // logical actor of the owner
	locked  bool
	readers int
	name    string
	seqKnown bool
}

type vtimer struct {
	when    int64
	seq     int
	fn      func() // runs in scheduler context (must not block)
	stopped bool
	fired   bool
	period  int64
}

type lockEvent struct {
	Mutex  int
	Held   []int
	Actor  int
	Thread int
}

type monitor struct {
	events        []lockEvent
	order         map[[2]int]bool // (a,b): b acquired while a held
	blockedHolding []string
	wouldBlock    int
	acquisitions  int
}

type sched struct {
	threads []*thread
	cur     *thread
	timers  []*vtimer
	tseq    int
	mutexes map[*value]*vmutex
	nextMu  int
	nextCh  int
	actor   int // logical actor for sequential harnesses
	preempt int
	budget  int // remaining preemptions (switches away from a runnable thread)
	killed  bool
	abortV  any
}

func (m *machine) initSched() {
	main := &thread{id: 0, name: "main", wake: make(chan bool, 1), started: true}
	m.sc = &sched{threads: []*thread{main}, cur: main, mutexes: map[*value]*vmutex{}}
	m.mon = &monitor{order: map[[2]int]bool{}}
}

func (m *machine) newChan(capacity int) *vchan {
	m.sc.nextCh++
	return &vchan{cap: capacity, id: m.sc.nextCh}
}

// ---------------------------------------------------------------------
// threads

func (m *machine) spawn(name string, body func()) *thread {
	sc := m.sc
	t := &thread{id: len(sc.threads), name: name, wake: make(chan bool, 1), actor: sc.cur.actor}
	sc.threads = append(sc.threads, t)
	go func() {
		run := <-t.wake
		if !run {
			return
		}
		t.started = true
		defer func() {
			r := recover()
			t.done = true
			if r != nil {
				if _, ok := r.(threadKill); ok {
					return
				}
				// propagate aborts / guest panics to the main thread
				if sc.abortV == nil {
					if pa, ok := r.(pathAbort); ok {
						sc.abortV = pa
					} else {
						sc.abortV = guestPanicInThread{t.name, r}
					}
				}
				m.wakeMainForAbort()
				return
			}
			// normal completion: hand the baton to someone else
			m.switchAwayFinal()
		}()
		body()
	}()
	return t
}

type guestPanicInThread struct {
	thread string
	v      any
}

func (m *machine) wakeMainForAbort() {
	main := m.sc.threads[0]
	m.sc.cur = main
	main.wake <- true
}

func (m *machine) enabled() []*thread {
	var out []*thread
	for _, t := range m.sc.threads {
		if t.done {
			continue
		}
		if t.blocked == nil || t.blocked() {
			out = append(out, t)
		}
	}
	return out
}

// pickNext chooses the next thread to run; fires timers if nobody is enabled.
func (m *machine) pickNext(includeSelfFirst bool) *thread {
	sc := m.sc
	for {
		en := m.enabled()
		if len(en) > 0 {
			if len(en) == 1 {
				return en[0]
			}
			// keep current thread first so that alternative 0 = "no switch"
			sort.SliceStable(en, func(i, j int) bool {
				if (en[i] == sc.cur) != (en[j] == sc.cur) {
					return en[i] == sc.cur
				}
				return en[i].id < en[j].id
			})
			k := m.chooseRec(len(en), "sched")
			return en[k]
		}
		if !m.fireNextTimer() {
			return nil
		}
	}
}

// transfer hands the baton to t and parks the current thread until woken.
func (m *machine) transfer(t *thread) {
	sc := m.sc
	self := sc.cur
	if t == self {
		return
	}
	sc.cur = t
	t.wake <- true
	run := <-self.wake
	if !run {
		panic(threadKill{})
	}
	if self.id == 0 && sc.abortV != nil {
		v := sc.abortV
		sc.abortV = nil
		if pa, ok := v.(pathAbort); ok {
			panic(pa)
		}
		gp := v.(guestPanicInThread)
		panic(gp.v)
	}
}

// switchAwayFinal is called by a finishing non-main thread.
func (m *machine) switchAwayFinal() {
	t := m.pickNext(false)
	if t == nil {
		m.sc.abortV = pathAbort{"blocked", "deadlock: all threads blocked after thread exit: " + m.describeBlocked()}
		m.wakeMainForAbort()
		return
	}
	m.sc.cur = t
	t.wake <- true
}

// yield is a scheduling point for a runnable thread.
func (m *machine) yield() {
	if len(m.sc.threads) == 1 && len(m.sc.timers) == 0 {
		return
	}
	if len(m.liveThreads()) <= 1 {
		return
	}
	if m.sc.budget <= 0 {
		return // preemption budget exhausted: keep running
	}
	t := m.pickNext(true)
	if t == nil {
		return
	}
	if t != m.sc.cur {
		m.sc.budget--
	}
	m.transfer(t)
}

func (m *machine) liveThreads() []*thread {
	var out []*thread
	for _, t := range m.sc.threads {
		if !t.done {
			out = append(out, t)
		}
	}
	return out
}

// block parks the current thread until cond() holds.
func (m *machine) block(what string, cond func() bool) {
	sc := m.sc
	self := sc.cur
	for !cond() {
		if len(self.held) > 0 && !strings.HasPrefix(what, "Lock ") {
			m.mon.blockedHolding = append(m.mon.blockedHolding, fmt.Sprintf("%s while holding %s", what, self.held[0].name))
		}
		self.blocked = cond
		t := m.pickNext(false)
		if t == nil {
			self.blocked = nil
			m.abort("blocked", "deadlock: %s can never proceed; %s", what, m.describeBlocked())
		}
		if t == self {
			self.blocked = nil
			continue
		}
		m.transfer(t)
		self.blocked = nil
	}
}

func (m *machine) describeBlocked() string {
	s := ""
	for _, t := range m.sc.threads {
		if !t.done {
			s += fmt.Sprintf("[thread %d %s blocked=%v]", t.id, t.name, t.blocked != nil)
		}
	}
	return s
}

// killThreads terminates all parked threads at the end of a path.
func (m *machine) killThreads() {
	if m.sc == nil {
		return
	}
	for _, t := range m.sc.threads[1:] {
		if !t.done {
			t.done = true
			t.wake <- false
		}
	}
}

// ---------------------------------------------------------------------
// timers / virtual time

func (m *machine) addTimer(d int64, period int64, fn func()) *vtimer {
	sc := m.sc
	sc.tseq++
	if d < 0 {
		d = 0
	}
	t := &vtimer{when: m.vclock + d, seq: sc.tseq, fn: fn, period: period}
	sc.timers = append(sc.timers, t)
	return t
}

func (m *machine) fireNextTimer() bool {
	sc := m.sc
	best := -1
	for i, t := range sc.timers {
		if t.stopped {
			continue
		}
		if best < 0 || t.when < sc.timers[best].when || t.when == sc.timers[best].when && t.seq < sc.timers[best].seq {
			best = i
		}
	}
	if best < 0 {
		sc.timers = sc.timers[:0]
		return false
	}
	t := sc.timers[best]
	if t.when > m.vclock {
		m.vclock = t.when
	}
	if t.period > 0 {
		t.when += t.period
	} else {
		t.fired = true
		t.stopped = true
		sc.timers = append(sc.timers[:best], sc.timers[best+1:]...)
	}
	t.fn()
	return true
}

// advance moves virtual time forward by d, firing the timers that expire.
func (m *machine) advance(d int64) {
	target := m.vclock + d
	for {
		sc := m.sc
		best := -1
		for i, t := range sc.timers {
			if t.stopped || t.when > target {
				continue
			}
			if best < 0 || t.when < sc.timers[best].when || t.when == sc.timers[best].when && t.seq < sc.timers[best].seq {
				best = i
			}
		}
		if best < 0 {
			break
		}
		m.fireNextTimer()
	}
	if target > m.vclock {
		m.vclock = target
	}
}

// ---------------------------------------------------------------------
// mutexes + lock monitor

func (m *machine) mutexAt(addr *value) *vmutex {
	mu := m.sc.mutexes[addr]
	if mu == nil {
		m.sc.nextMu++
		mu = &vmutex{id: m.sc.nextMu, name: fmt.Sprintf("mu%d", m.sc.nextMu)}
		m.sc.mutexes[addr] = mu
	}
	return mu
}

func (m *machine) curActor() int {
	if m.sc.actor != 0 {
		return m.sc.actor
	}
	return m.sc.cur.id + 1000
}

func (m *machine) lock(addr *value) {
	mu := m.mutexAt(addr)
	self := m.sc.cur
	if m.sc.preempt >= 1 {
		m.yield()
	}
	if mu.locked && mu.owner == self && mu.ownerA == m.curActor() {
		m.abort("blocked", "deadlock: thread %s re-locks mutex %s it already holds", self.name, mu.name)
	}
	if mu.locked && mu.owner == self {
		// sequential harness with logical actors: a different actor holds it
		m.mon.wouldBlock++
		panic(wouldBlockPanic{mu.name})
	}
	if mu.locked {
		m.block("Lock "+mu.name, func() bool { return !mu.locked })
	}
	// monitor
	var held []int
	for _, h := range self.held {
		if h.ownerA == m.curActor() {
			held = append(held, h.id)
			m.mon.order[[2]int{h.id, mu.id}] = true
		}
	}
	m.mon.acquisitions++
	m.mon.events = append(m.mon.events, lockEvent{Mutex: mu.id, Held: held, Actor: m.curActor(), Thread: self.id})
	mu.locked = true
	mu.owner = self
	mu.ownerA = m.curActor()
	self.held = append(self.held, mu)
}

type wouldBlockPanic struct{ mutex string }

func (m *machine) tryLock(addr *value) bool {
	mu := m.mutexAt(addr)
	if mu.locked {
		return false
	}
	m.lock(addr)
	return true
}

func (m *machine) unlock(addr *value) {
	mu := m.mutexAt(addr)
	if !mu.locked {
		panic(targetPanic{iface{nil, "sync: unlock of unlocked mutex"}})
	}
	mu.locked = false
	if mu.owner != nil {
		h := mu.owner.held
		for i := len(h) - 1; i >= 0; i-- {
			if h[i] == mu {
				mu.owner.held = append(h[:i], h[i+1:]...)
				break
			}
		}
	}
	mu.owner = nil
	if m.sc.preempt >= 2 {
		m.yield()
	}
}

// lockOrderCycle reports a cycle in the lock-order graph, if any.
func (mon *monitor) lockOrderCycle() []int {
	adj := map[int][]int{}
	for e := range mon.order {
		adj[e[0]] = append(adj[e[0]], e[1])
	}
	state := map[int]int{}
	var stack []int
	var cyc []int
	var dfs func(int) bool
	dfs = func(u int) bool {
		state[u] = 1
		stack = append(stack, u)
		for _, v := range adj[u] {
			if state[v] == 1 {
				cyc = append([]int{}, stack...)
				cyc = append(cyc, v)
				return true
			}
			if state[v] == 0 && dfs(v) {
				return true
			}
		}
		stack = stack[:len(stack)-1]
		state[u] = 2
		return false
	}
	for u := range adj {
		if state[u] == 0 && dfs(u) {
			return cyc
		}
	}
	return nil
}

// ---------------------------------------------------------------------
// channel operations

func (m *machine) chanSendReady(c *vchan) bool {
	if c.closed {
		return true // will panic
	}
	if c.cap > 0 {
		return len(c.buf) < c.cap
	}
	return c.recvq > 0
}

func (m *machine) chanRecvReady(c *vchan) bool {
	if len(c.buf) > 0 || c.closed {
		return true
	}
	for _, ps := range c.sendq {
		if !ps.taken {
			return true
		}
	}
	return false
}

func (m *machine) chanSend(c *vchan, v value) {
	if c == nil {
		m.block("send on nil channel", func() bool { return false })
	}
	if m.sc.preempt >= 2 {
		m.yield()
	}
	if c.closed {
		panic(targetPanic{iface{nil, "send on closed channel"}})
	}
	if c.cap > 0 {
		if len(c.buf) >= c.cap {
			m.block("chan send", func() bool { return len(c.buf) < c.cap || c.closed })
			if c.closed {
				panic(targetPanic{iface{nil, "send on closed channel"}})
			}
		}
		c.buf = append(c.buf, v)
		return
	}
	// unbuffered: enqueue and wait until taken
	ps := &pendingSend{v: v}
	c.sendq = append(c.sendq, ps)
	m.block("chan send (unbuffered)", func() bool { return ps.taken || c.closed })
	if !ps.taken {
		panic(targetPanic{iface{nil, "send on closed channel"}})
	}
}

// chanRecvNow performs a receive that is known to be ready.
func (m *machine) chanRecvNow(c *vchan) (value, bool) {
	if len(c.buf) > 0 {
		v := c.buf[0]
		c.buf = c.buf[1:]
		return v, true
	}
	for i, ps := range c.sendq {
		if !ps.taken {
			ps.taken = true
			c.sendq = append(c.sendq[:i], c.sendq[i+1:]...)
			return ps.v, true
		}
	}
	if c.closed {
		return nil, false
	}
	panic("chanRecvNow: not ready")
}

func (m *machine) chanRecv(c *vchan) (value, bool) {
	if c == nil {
		m.block("receive from nil channel", func() bool { return false })
	}
	if m.sc.preempt >= 2 {
		m.yield()
	}
	if !m.chanRecvReady(c) {
		c.recvq++
		m.block("chan receive", func() bool { return m.chanRecvReady(c) })
		c.recvq--
	}
	return m.chanRecvNow(c)
}

func (m *machine) chanClose(c *vchan) {
	if c == nil {
		panic(targetPanic{iface{nil, "close of nil channel"}})
	}
	if c.closed {
		panic(targetPanic{iface{nil, "close of closed channel"}})
	}
	c.closed = true
}

type selCase struct {
	c    *vchan
	send bool
	v    value
}

// selectOp returns the chosen case index (-1 = default) and received value.
func (m *machine) selectOp(cases []selCase, blocking bool) (int, value, bool) {
	if m.sc.preempt >= 2 {
		m.yield()
	}
	ready := func() []int {
		var r []int
		for i, sc := range cases {
			if sc.c == nil {
				continue
			}
			if sc.send && (m.chanSendReady(sc.c)) || !sc.send && m.chanRecvReady(sc.c) {
				r = append(r, i)
			}
		}
		return r
	}
	r := ready()
	if len(r) == 0 {
		if !blocking {
			return -1, nil, false
		}
		for _, sc := range cases {
			if sc.c != nil && !sc.send {
				sc.c.recvq++
			}
		}
		m.block("select", func() bool { return len(ready()) > 0 })
		for _, sc := range cases {
			if sc.c != nil && !sc.send {
				sc.c.recvq--
			}
		}
		r = ready()
	}
	k := 0
	if len(r) > 1 {
		k = m.chooseRec(len(r), "select")
	}
	i := r[k]
	sc := cases[i]
	if sc.send {
		if sc.c.closed {
			panic(targetPanic{iface{nil, "send on closed channel"}})
		}
		if sc.c.cap > 0 {
			sc.c.buf = append(sc.c.buf, sc.v)
		} else {
			// a receiver is blocked: hand over through the queue, already "taken" once it wakes
			ps := &pendingSend{v: sc.v}
			sc.c.sendq = append(sc.c.sendq, ps)
		}
		return i, nil, false
	}
	v, ok := m.chanRecvNow(sc.c)
	return i, v, ok
}
