package vm

import (
	"fmt"
	"go/token"
	"go/types"
	"strings"

	"golang.org/x/tools/go/ssa"
)

type ssaFunction = ssa.Function

const (
	tokenADD = token.ADD
	tokenAND = token.AND
	tokenOR  = token.OR
)

const hasMonotonic = uint64(1) << 63
const vclockBase = int64(1_000_000_000)

func (m *machine) nowValue() value {
	return structure{hasMonotonic, m.vclock + vclockBase, (*value)(nil)}
}

func timeExt(t value) (int64, bool) {
	s := t.(structure)
	return s[1].(int64), s[0].(uint64)&hasMonotonic != 0
}

func (m *machine) sleep(d int64) {
	if d <= 0 {
		m.yield()
		return
	}
	target := m.vclock + d
	m.addTimer(d, 0, func() {})
	m.block("time.Sleep", func() bool { return m.vclock >= target })
}

// settle lets all other threads run until every one of them is blocked or done.
func (m *machine) settle() {
	self := m.sc.cur
	for {
		// timers that are already due (AfterFunc/Reset with a non-positive
		// delay) fire promptly in Go: run them before looking for threads
		m.advance(0)
		var other *thread
		for _, t := range m.enabled() {
			if t != self {
				other = t
				break
			}
		}
		if other == nil {
			return
		}
		// deterministic: lowest id first unless preemptive exploration is on
		if m.sc.preempt >= 1 {
			en := m.enabled()
			var cands []*thread
			for _, t := range en {
				if t != self {
					cands = append(cands, t)
				}
			}
			k := m.chooseRec(len(cands), "settle")
			other = cands[k]
		}
		m.transfer(other)
	}
}

func registerTimeIntrinsics(reg func(string, externalFn)) {
	reg("time.Now", func(fr *frame, a []value) value { return fr.i.m.nowValue() })
	reg("time.runtimeNano", func(fr *frame, a []value) value { return fr.i.m.vclock + vclockBase })
	reg("time.Since", func(fr *frame, a []value) value {
		ext, mono := timeExt(a[0])
		if !mono {
			return int64(0)
		}
		return fr.i.m.vclock + vclockBase - ext
	})
	reg("time.Until", func(fr *frame, a []value) value {
		ext, mono := timeExt(a[0])
		if !mono {
			return int64(0)
		}
		return ext - (fr.i.m.vclock + vclockBase)
	})
	reg("time.Sleep", func(fr *frame, a []value) value { fr.i.m.sleep(asInt64(a[0])); return nil })

	newTimerObj := func(fr *frame, typeName string, c *vchan) *value {
		tt := fr.i.env.Pkgs["time"].Type(typeName).Object().Type()
		var v value = zero(tt)
		if c != nil {
			v.(structure)[0] = c
		}
		return &v
	}
	reg("time.AfterFunc", func(fr *frame, a []value) value {
		m := fr.i.m
		i := fr.i
		f := a[1]
		obj := newTimerObj(fr, "Timer", nil)
		vt := m.addTimer(asInt64(a[0]), 0, func() {
			m.spawn("time.AfterFunc", func() { call(i, nil, 0, f, nil) })
		})
		m.timerObj(obj, vt)
		return obj
	})
	reg("time.NewTimer", func(fr *frame, a []value) value {
		m := fr.i.m
		c := m.newChan(1)
		obj := newTimerObj(fr, "Timer", c)
		vt := m.addTimer(asInt64(a[0]), 0, func() {
			if len(c.buf) == 0 {
				c.buf = append(c.buf, m.nowValue())
			}
		})
		m.timerObj(obj, vt)
		return obj
	})
	reg("time.After", func(fr *frame, a []value) value {
		m := fr.i.m
		c := m.newChan(1)
		m.addTimer(asInt64(a[0]), 0, func() {
			if len(c.buf) == 0 {
				c.buf = append(c.buf, m.nowValue())
			}
		})
		return c
	})
	reg("time.NewTicker", func(fr *frame, a []value) value {
		m := fr.i.m
		d := asInt64(a[0])
		if d <= 0 {
			panic(targetPanic{iface{nil, "non-positive interval for NewTicker"}})
		}
		c := m.newChan(1)
		obj := newTimerObj(fr, "Ticker", c)
		vt := m.addTimer(d, d, func() {
			if len(c.buf) == 0 {
				c.buf = append(c.buf, m.nowValue())
			}
		})
		m.timerObj(obj, vt)
		return obj
	})
	stop := func(fr *frame, a []value) value {
		m := fr.i.m
		vt := m.timerObjs[a[0].(*value)]
		if vt == nil {
			return false
		}
		was := !vt.stopped && !vt.fired
		vt.stopped = true
		return was
	}
	reg("(*time.Timer).Stop", stop)
	reg("(*time.Ticker).Stop", func(fr *frame, a []value) value { stop(fr, a); return nil })
	reg("(*time.Timer).Reset", func(fr *frame, a []value) value {
		m := fr.i.m
		p := a[0].(*value)
		vt := m.timerObjs[p]
		if vt == nil {
			m.unsupported("Reset of unknown timer")
		}
		was := !vt.stopped && !vt.fired
		vt.stopped = true
		nt := m.addTimer(asInt64(a[1]), 0, vt.fn)
		m.timerObjs[p] = nt
		return was
	})
	reg("(*time.Ticker).Reset", func(fr *frame, a []value) value {
		m := fr.i.m
		p := a[0].(*value)
		vt := m.timerObjs[p]
		if vt == nil {
			m.unsupported("Reset of unknown ticker")
		}
		vt.stopped = true
		d := asInt64(a[1])
		nt := m.addTimer(d, d, vt.fn)
		m.timerObjs[p] = nt
		return nil
	})
	// rate limiter: contract only (may wait; returns ctx error if done)
	reg("(*golang.org/x/time/rate.Limiter).Wait", func(fr *frame, a []value) value {
		m := fr.i.m
		m.yield()
		ctx := a[1].(iface)
		if f := lookupMethodByName(fr.i, ctx.t, "Err"); f != nil {
			return call(fr.i, fr, 0, f, []value{ctx.v})
		}
		return iface{}
	})
}

func (m *machine) timerObj(obj *value, vt *vtimer) {
	if m.timerObjs == nil {
		m.timerObjs = map[*value]*vtimer{}
	}
	m.timerObjs[obj] = vt
}

// ---------------------------------------------------------------------
// fmt: a mini formatter. Formatting is never the subject of a property.

func registerFmtIntrinsics(reg func(string, externalFn)) {
	reg("fmt.Sprintf", func(fr *frame, a []value) value {
		return sprintf(fr, a[0].(string), a[1].([]value))
	})
	reg("fmt.Sprint", func(fr *frame, a []value) value {
		var sb strings.Builder
		for _, v := range a[0].([]value) {
			sb.WriteString(fmtValue(fr, v, 'v'))
		}
		return sb.String()
	})
	reg("fmt.Sprintln", func(fr *frame, a []value) value {
		var parts []string
		for _, v := range a[0].([]value) {
			parts = append(parts, fmtValue(fr, v, 'v'))
		}
		return strings.Join(parts, " ") + "\n"
	})
	nop := func(fr *frame, a []value) value {
		return tuple{0, iface{}}
	}
	reg("fmt.Printf", nop)
	reg("fmt.Println", nop)
	reg("fmt.Print", nop)
	reg("fmt.Fprintf", nop)
	reg("fmt.Fprintln", nop)
	reg("fmt.Fprint", nop)
	reg("fmt.Errorf", func(fr *frame, a []value) value {
		format := a[0].(string)
		args := a[1].([]value)
		msg := sprintf(fr, format, args)
		// find %w operand
		var wrapped value
		ai := 0
		for i := 0; i < len(format); i++ {
			if format[i] != '%' {
				continue
			}
			i++
			for i < len(format) && strings.IndexByte("+-# 0123456789.", format[i]) >= 0 {
				i++
			}
			if i >= len(format) {
				break
			}
			if format[i] == '%' {
				continue
			}
			if format[i] == 'w' && ai < len(args) && wrapped == nil {
				wrapped = args[ai]
			}
			ai++
		}
		if wrapped != nil {
			fp := fr.i.env.Pkgs["fmt"]
			wt := fp.Type("wrapError").Object().Type()
			var v value = structure{msg, wrapped}
			return iface{t: types.NewPointer(wt), v: &v}
		}
		ep := fr.i.env.Pkgs["errors"]
		return call(fr.i, fr, 0, ep.Func("New"), []value{msg})
	})
}

func sprintf(fr *frame, format string, args []value) string {
	var sb strings.Builder
	ai := 0
	for i := 0; i < len(format); i++ {
		c := format[i]
		if c != '%' {
			sb.WriteByte(c)
			continue
		}
		i++
		for i < len(format) && strings.IndexByte("+-# 0123456789.", format[i]) >= 0 {
			i++
		}
		if i >= len(format) {
			break
		}
		verb := format[i]
		if verb == '%' {
			sb.WriteByte('%')
			continue
		}
		if ai < len(args) {
			sb.WriteString(fmtValue(fr, args[ai], verb))
			ai++
		} else {
			sb.WriteString("%!" + string(verb) + "(MISSING)")
		}
	}
	return sb.String()
}

func fmtValue(fr *frame, v value, verb byte) (out string) {
	defer func() {
		if r := recover(); r != nil {
			if isEnginePanic(r) {
				panic(r)
			}
			out = "<?>"
		}
	}()
	if it, ok := v.(iface); ok {
		if it.t == nil {
			return "<nil>"
		}
		if verb != 'T' && verb != 'p' && verb != 'd' && verb != 'x' {
			if f := lookupMethodByName(fr.i, it.t, "Error"); f != nil {
				if s, ok := call(fr.i, fr, 0, f, []value{it.v}).(string); ok {
					return s
				}
			}
			if f := lookupMethodByName(fr.i, it.t, "String"); f != nil && f.Signature.Params().Len() == 0 {
				if s, ok := call(fr.i, fr, 0, f, []value{it.v}).(string); ok {
					return s
				}
			}
		}
		if verb == 'T' {
			return it.t.String()
		}
		v = it.v
	}
	switch x := v.(type) {
	case string:
		if verb == 'q' {
			return fmt.Sprintf("%q", x)
		}
		if verb == 'x' {
			return fmt.Sprintf("%x", x)
		}
		return x
	case sym:
		return "<sym>"
	case symstr:
		return "<symstr>"
	case []value:
		allBytes := len(x) > 0
		for _, e := range x {
			if _, ok := e.(byte); !ok {
				allBytes = false
			}
		}
		if allBytes {
			b := make([]byte, len(x))
			for i, e := range x {
				b[i] = e.(byte)
			}
			switch verb {
			case 'x':
				return fmt.Sprintf("%x", b)
			case 's':
				return string(b)
			case 'q':
				return fmt.Sprintf("%q", b)
			}
			return fmt.Sprint(b)
		}
		var parts []string
		for _, e := range x {
			parts = append(parts, fmtValue(fr, e, verb))
		}
		return "[" + strings.Join(parts, " ") + "]"
	case *value:
		// deterministic per-path object ids instead of host addresses
		m := fr.i.m
		if m.ptrIDs == nil {
			m.ptrIDs = map[*value]int{}
		}
		id, ok := m.ptrIDs[x]
		if !ok {
			id = len(m.ptrIDs) + 1
			m.ptrIDs[x] = id
		}
		return fmt.Sprintf("0xc%09x", id*16)
	case bool, int, int8, int16, int32, int64, uint, uint8, uint16, uint32, uint64, uintptr, float32, float64:
		switch verb {
		case 'd', 'x', 'c', 'q', 'f', 'g', 't', 'X', 'o', 'b':
			return fmt.Sprintf("%"+string(verb), x)
		}
		return fmt.Sprint(x)
	}
	return toString(v)
}
