package vm

import (
	"fmt"
	"go/token"
	"go/types"

	"golang.org/x/tools/go/ssa"

	"symgo/smt"
)

func basicKindOf(t types.Type) (types.BasicKind, bool) {
	if b, ok := t.Underlying().(*types.Basic); ok {
		return b.Kind(), true
	}
	return 0, false
}

// symBinop handles binary operators where at least one operand is sym.
func (m *machine) symBinop(op token.Token, t types.Type, x, y value) value {
	kx, _ := kindOfValue(x)
	ky, _ := kindOfValue(y)
	b := m.b
	switch op {
	case token.SHL, token.SHR:
		return m.symShift(op, kx, ky, x, y)
	}
	tx, ty := m.term(x), m.term(y)
	k := kx
	if tx.W != ty.W {
		panic(fmt.Sprintf("symBinop %s: width mismatch %T %T", op, x, y))
	}
	signed := kindSigned(k)
	switch op {
	case token.ADD:
		return m.val(b.Bin(smt.OpAdd, tx, ty), k)
	case token.SUB:
		return m.val(b.Bin(smt.OpSub, tx, ty), k)
	case token.MUL:
		return m.val(b.Bin(smt.OpMul, tx, ty), k)
	case token.QUO, token.REM:
		if m.branch(b.Eq(ty, b.Const(ty.W, 0))) {
			panic("runtime error: integer divide by zero")
		}
		var o smt.Op
		switch {
		case op == token.QUO && signed:
			o = smt.OpSDiv
		case op == token.QUO:
			o = smt.OpUDiv
		case signed:
			o = smt.OpSRem
		default:
			o = smt.OpURem
		}
		return m.val(b.Bin(o, tx, ty), k)
	case token.AND:
		if tx.W == 0 {
			return m.val(b.And(tx, ty), k)
		}
		return m.val(b.Bin(smt.OpBAnd, tx, ty), k)
	case token.OR:
		if tx.W == 0 {
			return m.val(b.Or(tx, ty), k)
		}
		return m.val(b.Bin(smt.OpBOr, tx, ty), k)
	case token.XOR:
		return m.val(b.Bin(smt.OpBXor, tx, ty), k)
	case token.AND_NOT:
		return m.val(b.Bin(smt.OpBAnd, tx, b.BNot(ty)), k)
	case token.EQL:
		return m.val(b.Eq(tx, ty), types.Bool)
	case token.NEQ:
		return m.val(b.Not(b.Eq(tx, ty)), types.Bool)
	case token.LSS:
		if signed {
			return m.val(b.Bin(smt.OpSlt, tx, ty), types.Bool)
		}
		return m.val(b.Bin(smt.OpUlt, tx, ty), types.Bool)
	case token.LEQ:
		if signed {
			return m.val(b.Bin(smt.OpSle, tx, ty), types.Bool)
		}
		return m.val(b.Bin(smt.OpUle, tx, ty), types.Bool)
	case token.GTR:
		if signed {
			return m.val(b.Bin(smt.OpSlt, ty, tx), types.Bool)
		}
		return m.val(b.Bin(smt.OpUlt, ty, tx), types.Bool)
	case token.GEQ:
		if signed {
			return m.val(b.Bin(smt.OpSle, ty, tx), types.Bool)
		}
		return m.val(b.Bin(smt.OpUle, ty, tx), types.Bool)
	}
	panic(fmt.Sprintf("symBinop: unsupported op %s on %T,%T", op, x, y))
}

func (m *machine) symShift(op token.Token, kx, ky types.BasicKind, x, y value) value {
	b := m.b
	tx, ty := m.term(x), m.term(y)
	if kindSigned(ky) {
		// negative shift count panics
		if m.branch(b.Bin(smt.OpSlt, ty, b.Const(ty.W, 0))) {
			panic("runtime error: negative shift amount")
		}
	}
	w := tx.W
	// big := y >= w (unsigned)
	var big *smt.Term
	var amt *smt.Term
	if ty.W > w {
		big = b.Bin(smt.OpUle, b.Const(ty.W, uint64(w)), ty)
		amt = b.Extract(ty, w-1, 0)
	} else {
		amt = b.Zext(ty, w)
		big = b.Bin(smt.OpUle, b.Const(w, uint64(w)), amt)
	}
	var r *smt.Term
	switch {
	case op == token.SHL:
		r = b.Ite(big, b.Const(w, 0), b.Bin(smt.OpShl, tx, amt))
	case kindSigned(kx):
		r = b.Ite(big, b.Bin(smt.OpAshr, tx, b.Const(w, uint64(w-1))), b.Bin(smt.OpAshr, tx, amt))
	default:
		r = b.Ite(big, b.Const(w, 0), b.Bin(smt.OpLshr, tx, amt))
	}
	return m.val(r, kx)
}

func (m *machine) symUnop(op token.Token, x sym) value {
	switch op {
	case token.SUB:
		return m.val(m.b.Neg(x.t), x.k)
	case token.XOR:
		return m.val(m.b.BNot(x.t), x.k)
	case token.NOT:
		return m.val(m.b.Not(x.t), x.k)
	}
	panic(fmt.Sprintf("symUnop: %s", op))
}

// symConvInt converts a symbolic integer to another integer kind.
func (m *machine) symConvInt(x sym, dst types.BasicKind) value {
	if dst == types.Bool || x.k == types.Bool {
		if dst == x.k {
			return x
		}
		m.unsupported("conversion bool<->int on symbolic value")
	}
	switch dst {
	case types.Float32, types.Float64, types.String, types.Complex64, types.Complex128:
		m.unsupported("conversion of symbolic integer to %v", dst)
	}
	sw, dw := x.t.W, kindWidth(dst)
	var t *smt.Term
	switch {
	case dw == sw:
		t = x.t
	case dw < sw:
		t = m.b.Extract(x.t, dw-1, 0)
	case kindSigned(x.k):
		t = m.b.Sext(x.t, dw)
	default:
		t = m.b.Zext(x.t, dw)
	}
	return m.val(t, dst)
}

// ---------------------------------------------------------------------
// equality producing terms

// eqTerm returns a Bool term for x == y at static type t.
func (m *machine) eqTerm(t types.Type, x, y value) *smt.Term {
	b := m.b
	switch x := x.(type) {
	case sym:
		return b.Eq(x.t, m.term(y))
	case symstr:
		return m.seqEq(strBytes(x), strBytes(y))
	case string:
		if ys, ok := y.(symstr); ok {
			return m.seqEq(strBytes(x), ys)
		}
		return b.Bool(x == y.(string))
	case structure:
		ys := y.(structure)
		st := t.Underlying().(*types.Struct)
		r := b.True
		for i := 0; i < st.NumFields(); i++ {
			if f := st.Field(i); f.Name() != "_" {
				r = b.And(r, m.eqTerm(f.Type(), x[i], ys[i]))
				if r == b.False {
					return r
				}
			}
		}
		return r
	case array:
		ya := y.(array)
		et := t.Underlying().(*types.Array).Elem()
		r := b.True
		for i := range x {
			r = b.And(r, m.eqTerm(et, x[i], ya[i]))
			if r == b.False {
				return r
			}
		}
		return r
	case iface:
		yi := y.(iface)
		if !sameType(x.t, yi.t) {
			return b.False
		}
		if x.t == nil {
			return b.True
		}
		return m.eqTerm(x.t, x.v, yi.v)
	}
	if isSym(y) {
		return b.Eq(m.term(x), y.(sym).t)
	}
	return b.Bool(equals(t, x, y))
}

func hasSymDeep(v value) bool {
	switch v := v.(type) {
	case sym, symstr:
		return true
	case structure:
		for _, e := range v {
			if hasSymDeep(e) {
				return true
			}
		}
	case array:
		for _, e := range v {
			if hasSymDeep(e) {
				return true
			}
		}
	case iface:
		return hasSymDeep(v.v)
	}
	return false
}

// strBytes returns the byte values of a string-like value.
func strBytes(v value) []value {
	switch v := v.(type) {
	case symstr:
		return []value(v)
	case string:
		out := make([]value, len(v))
		for i := 0; i < len(v); i++ {
			out[i] = v[i]
		}
		return out
	}
	panic(fmt.Sprintf("strBytes: %T", v))
}

// mkString builds a string value from bytes: host string if all concrete.
func mkString(bs []value) value {
	for _, e := range bs {
		if isSym(e) {
			cp := make(symstr, len(bs))
			copy(cp, bs)
			return cp
		}
	}
	b := make([]byte, len(bs))
	for i, e := range bs {
		b[i] = e.(byte)
	}
	return string(b)
}

func (m *machine) seqEq(a, b []value) *smt.Term {
	if len(a) != len(b) {
		return m.b.False
	}
	r := m.b.True
	for i := range a {
		r = m.b.And(r, m.b.Eq(m.term(a[i]), m.term(b[i])))
		if r == m.b.False {
			return r
		}
	}
	return r
}

// seqLess returns the term for lexicographic a < b (bytes unsigned).
func (m *machine) seqLess(a, b []value) *smt.Term {
	bl := m.b
	n := len(a)
	if len(b) < n {
		n = len(b)
	}
	// from the end: less_i = a[i]<b[i] or (a[i]==b[i] and less_{i+1})
	r := bl.Bool(len(a) < len(b))
	for i := n - 1; i >= 0; i-- {
		ai, bi := m.term(a[i]), m.term(b[i])
		r = bl.Or(bl.Bin(smt.OpUlt, ai, bi), bl.And(bl.Eq(ai, bi), r))
	}
	return r
}

// seqCompare returns an int-valued (64-bit) term: -1, 0, +1.
func (m *machine) seqCompare(a, b []value) *smt.Term {
	bl := m.b
	lt := m.seqLess(a, b)
	eq := m.seqEq(a, b)
	return bl.Ite(lt, bl.Const(64, ^uint64(0)), bl.Ite(eq, bl.Const(64, 0), bl.Const(64, 1)))
}

func (m *machine) seqHasPrefix(s, p []value) *smt.Term {
	if len(p) > len(s) {
		return m.b.False
	}
	return m.seqEq(s[:len(p)], p)
}

// symStringBinop handles string operators when an operand is a symstr.
func (m *machine) symStringBinop(op token.Token, x, y value) value {
	a, b := strBytes(x), strBytes(y)
	switch op {
	case token.ADD:
		out := make([]value, 0, len(a)+len(b))
		out = append(out, a...)
		out = append(out, b...)
		return mkString(out)
	case token.EQL:
		return m.val(m.seqEq(a, b), types.Bool)
	case token.NEQ:
		return m.val(m.b.Not(m.seqEq(a, b)), types.Bool)
	case token.LSS:
		return m.val(m.seqLess(a, b), types.Bool)
	case token.GTR:
		return m.val(m.seqLess(b, a), types.Bool)
	case token.LEQ:
		return m.val(m.b.Not(m.seqLess(b, a)), types.Bool)
	case token.GEQ:
		return m.val(m.b.Not(m.seqLess(a, b)), types.Bool)
	}
	panic(fmt.Sprintf("symStringBinop: %s", op))
}

// ---------------------------------------------------------------------
// symbolic indexes

// symAddr is a lazy pointer &elems[idx] with a symbolic index.
type symAddr struct {
	elems []value
	idx   sym
}

// checkIndex forks on idx being in [0,n); out of range panics like Go.
func (m *machine) checkIndex(idx sym, n int) {
	var inRange *smt.Term
	nt := m.b.Const(idx.t.W, uint64(n))
	if kindSigned(idx.k) {
		inRange = m.b.And(m.b.Bin(smt.OpSle, m.b.Const(idx.t.W, 0), idx.t), m.b.Bin(smt.OpSlt, idx.t, nt))
	} else {
		inRange = m.b.Bin(smt.OpUlt, idx.t, nt)
		if idx.t.W < 64 && uint64(n) > (uint64(1)<<uint(idx.t.W))-1 {
			inRange = m.b.True
		}
	}
	if !m.branch(inRange) {
		panic(fmt.Sprintf("runtime error: index out of range [symbolic] with length %d", n))
	}
}

func scalarLike(v value) bool {
	switch v.(type) {
	case sym, bool, int, int8, int16, int32, int64, uint, uint8, uint16, uint32, uint64, uintptr:
		return true
	}
	return false
}

// symRead reads elems[idx] for symbolic idx (bounds already checked).
func (m *machine) symRead(elems []value, idx sym) value {
	n := len(elems)
	if n == 0 {
		panic("runtime error: index out of range [symbolic] with length 0")
	}
	w := idx.t.W
	allScalar := true
	for _, e := range elems {
		if !scalarLike(e) {
			allScalar = false
			break
		}
	}
	rangeCond := func(lo, hi int) *smt.Term {
		if lo == hi {
			return m.b.Eq(idx.t, m.b.Const(w, uint64(lo)))
		}
		c := m.b.Bin(smt.OpUle, idx.t, m.b.Const(w, uint64(hi)))
		if lo > 0 {
			c = m.b.And(m.b.Bin(smt.OpUle, m.b.Const(w, uint64(lo)), idx.t), c)
		}
		return c
	}
	if allScalar {
		// group equal values (runs of consecutive indexes become range
		// conditions), build an ite chain (no fork)
		type grp struct {
			t    *smt.Term
			cond *smt.Term
			cnt  int
		}
		k, _ := kindOfValue(elems[0])
		var groups []*grp
		byTerm := map[*smt.Term]*grp{}
		for i := 0; i < n; {
			t := m.term(elems[i])
			j := i
			for j+1 < n && m.term(elems[j+1]) == t {
				j++
			}
			g := byTerm[t]
			c := rangeCond(i, j)
			if g == nil {
				g = &grp{t: t, cond: c}
				byTerm[t] = g
				groups = append(groups, g)
			} else {
				g.cond = m.b.Or(g.cond, c)
			}
			g.cnt += j - i + 1
			i = j + 1
		}
		// largest group is the default
		def := 0
		for i, g := range groups {
			if g.cnt > groups[def].cnt {
				def = i
			}
		}
		r := groups[def].t
		for i, g := range groups {
			if i != def {
				r = m.b.Ite(g.cond, g.t, r)
			}
		}
		return m.val(r, k)
	}
	// fork by groups of identical (comparable) values
	var conds []*smt.Term
	var reps []value
	for i := 0; i < n; i++ {
		e := elems[i]
		j := i
		for j+1 < n && sameRefOrNil(elems[j+1], e) {
			j++
		}
		c := rangeCond(i, j)
		i = j
		found := -1
		for j, r := range reps {
			if sameRef(r, e) {
				found = j
				break
			}
		}
		if found >= 0 {
			conds[found] = m.b.Or(conds[found], c)
		} else {
			reps = append(reps, e)
			conds = append(conds, c)
		}
	}
	g := m.chooseAmong(DGroup, conds, "symbolic-index read")
	return reps[g]
}

func sameRefOrNil(a, b value) bool { return sameRef(a, b) }

// sameRef: cheap identity for grouping non-scalar elements (pointers, nil funcs, chans).
func sameRef(a, b value) bool {
	switch a := a.(type) {
	case *value:
		bb, ok := b.(*value)
		return ok && a == bb
	case *vchan:
		bb, ok := b.(*vchan)
		return ok && a == bb
	}
	return false
}

// symWriteIndex concretises the index of a write (fork per feasible index).
func (m *machine) symWriteIndex(idx sym, n int) int {
	conds := make([]*smt.Term, n)
	for i := 0; i < n; i++ {
		conds[i] = m.b.Eq(idx.t, m.b.Const(idx.t.W, uint64(i)))
	}
	return m.chooseAmong(DIdxFork, conds, "symbolic-index write")
}

// asInt concretises symbolic integers where the VM needs a host integer.
func (m *machine) asInt64(x value) int64 {
	if s, ok := x.(sym); ok {
		c := m.concretise(s.t, "integer needed concretely")
		if kindSigned(s.k) {
			w := s.t.W
			sh := uint(64 - w)
			return int64(c<<sh) >> sh
		}
		return int64(c)
	}
	return asInt64(x)
}

// onlyLoadStoreRefs reports whether the address computed by instr is used only
// by loads and stores (so a lazy symbolic address is enough).
func onlyLoadStoreRefs(instr *ssa.IndexAddr) bool {
	refs := instr.Referrers()
	if refs == nil {
		return false
	}
	for _, r := range *refs {
		switch r := r.(type) {
		case *ssa.UnOp:
			if r.Op != token.MUL {
				return false
			}
		case *ssa.Store:
			if r.Addr != ssa.Value(instr) {
				return false
			}
		case *ssa.DebugRef:
		default:
			return false
		}
	}
	return true
}
