package vm

// Env: the program under analysis, loaded from /repo's current working tree
// (plus overlay harness files), lowered to SSA; shared read-only by workers.

import (
	"fmt"
	"go/types"
	"os"
	"runtime"
	"runtime/debug"
	"sort"
	"strings"
	"sync"
	"time"

	"golang.org/x/tools/go/packages"
	"golang.org/x/tools/go/ssa"
	"golang.org/x/tools/go/ssa/ssautil"

	"symgo/smt"
)

const ModulePath = "github.com/cilium/statedb"

type externalFn func(fr *frame, args []value) value

type Env struct {
	Prog     *ssa.Program
	Pkgs     map[string]*ssa.Package // by import path
	InitPkgs []*ssa.Package          // packages whose init is executed, in dependency order
	Sizes    types.Sizes
	LoadTime time.Duration
	Params   map[string]int
	OpenKnown map[string]bool

	mu        sync.Mutex
	intrCache map[*ssa.Function]externalFn
	allowed_  map[*ssa.Function]bool
	runtimeErrorString types.Type
}

type LoadConfig struct {
	RepoDir  string
	Patterns []string          // e.g. "./part"
	Overlay  map[string]string // virtual path -> real file
	Tags     string
}

// interpreted stdlib packages (their Go source is executed by the VM).
var interpretedStd = map[string]bool{
	"slices": true, "sort": true, "cmp": true, "maps": true, "iter": true,
	"container/heap": true, "encoding/binary": true, "errors": true,
	"math/bits": true, "unicode/utf8": true, "strings": true, "bytes": true,
	"context": true, "internal/bytealg": true, "internal/byteorder": true,
	"strconv": true, "unicode": true, "math": true, "internal/stringslite": true,
	"sync": true, "time": true, "sync/atomic": true, "internal/itoa": true,
	"golang.org/x/time/rate": true,
}

var allowedFuncs = map[string]bool{
	"(*fmt.wrapError).Error": true, "(*fmt.wrapError).Unwrap": true,
}

// packages whose init() is executed per path.
var initStd = []string{"context"}

func Load(cfg LoadConfig) (*Env, error) {
	t0 := time.Now()
	overlay := map[string][]byte{}
	for virt, real := range cfg.Overlay {
		b, err := os.ReadFile(real)
		if err != nil {
			return nil, err
		}
		overlay[virt] = b
	}
	pcfg := &packages.Config{
		Mode:    packages.LoadAllSyntax,
		Dir:     cfg.RepoDir,
		Overlay: overlay,
		Env:     append(os.Environ(), "GOFLAGS=-mod=mod", "GOPROXY=off"),
	}
	if cfg.Tags != "" {
		pcfg.BuildFlags = []string{"-tags=" + cfg.Tags}
	}
	initial, err := packages.Load(pcfg, cfg.Patterns...)
	if err != nil {
		return nil, err
	}
	var errs []string
	packages.Visit(initial, nil, func(p *packages.Package) {
		for _, e := range p.Errors {
			errs = append(errs, e.Error())
		}
	})
	if len(errs) > 0 {
		return nil, fmt.Errorf("package load errors:\n%s", strings.Join(errs, "\n"))
	}
	prog, _ := ssautil.AllPackages(initial, ssa.InstantiateGenerics)
	prog.Build()
	env := &Env{
		Prog:      prog,
		Pkgs:      map[string]*ssa.Package{},
		Sizes:     &types.StdSizes{WordSize: 8, MaxAlign: 8},
		Params:    map[string]int{},
		OpenKnown: map[string]bool{},
		intrCache: map[*ssa.Function]externalFn{},
		allowed_:  map[*ssa.Function]bool{},
	}
	for _, p := range prog.AllPackages() {
		env.Pkgs[p.Pkg.Path()] = p
	}
	if rp := env.Pkgs["runtime"]; rp != nil {
		env.runtimeErrorString = rp.Type("errorString").Object().Type()
	}
	// init order: dependency order over module packages + initStd
	seen := map[string]bool{}
	var order []*ssa.Package
	var visit func(p *packages.Package)
	visit = func(p *packages.Package) {
		if seen[p.PkgPath] {
			return
		}
		seen[p.PkgPath] = true
		var imps []string
		for k := range p.Imports {
			imps = append(imps, k)
		}
		sort.Strings(imps)
		for _, k := range imps {
			visit(p.Imports[k])
		}
		if strings.HasPrefix(p.PkgPath, ModulePath) || contains(initStd, p.PkgPath) {
			if sp := env.Pkgs[p.PkgPath]; sp != nil {
				order = append(order, sp)
			}
		}
	}
	for _, p := range initial {
		visit(p)
	}
	env.InitPkgs = order
	env.LoadTime = time.Since(t0)
	return env, nil
}

func contains(s []string, x string) bool {
	for _, e := range s {
		if e == x {
			return true
		}
	}
	return false
}

func (e *Env) allowed(fn *ssa.Function) bool {
	e.mu.Lock()
	defer e.mu.Unlock()
	if v, ok := e.allowed_[fn]; ok {
		return v
	}
	ok := false
	pkg := fn.Pkg
	if pkg == nil {
		if o := fn.Origin(); o != nil {
			pkg = o.Pkg
		}
	}
	if pkg == nil && fn.Parent() != nil {
		p := fn
		for p.Parent() != nil {
			p = p.Parent()
		}
		pkg = p.Pkg
		if pkg == nil && p.Origin() != nil {
			pkg = p.Origin().Pkg
		}
	}
	if pkg == nil {
		// synthetic wrappers (bound methods, thunks): allowed, their callees are checked
		ok = true
	} else {
		path := pkg.Pkg.Path()
		ok = strings.HasPrefix(path, ModulePath) || interpretedStd[path] || allowedFuncs[fnKey(fn)]
	}
	e.allowed_[fn] = ok
	return ok
}

// fnKey: name used to look up intrinsics; generic instances map to their origin.
func fnKey(fn *ssa.Function) string {
	if o := fn.Origin(); o != nil {
		return o.String()
	}
	return fn.String()
}

func (e *Env) intrinsic(fn *ssa.Function) externalFn {
	e.mu.Lock()
	defer e.mu.Unlock()
	if f, ok := e.intrCache[fn]; ok {
		return f
	}
	var f externalFn
	if fn.Parent() == nil {
		f = intrinsics[fnKey(fn)]
	}
	e.intrCache[fn] = f
	return f
}

// ---------------------------------------------------------------------

type RunOpts struct {
	Entry      string // "pkgpath.Func"
	Prefix     []Decision
	Budget     int64
	Concrete   bool
	Tape       []TapeEntry
	UseRng     bool
	Seed       uint64
	WantSample bool
	CrossCheck bool
	Trace      bool
	CollectFns bool
	Preempt    int
	SymMapOrder bool
	FailAtEnd   bool
	ReplayChoices bool
	DeadlockViolation bool
	PreemptBudget int
}

// Worker owns a solver process and a term builder.
type Worker struct {
	env    *Env
	b      *smt.Builder
	solver *smt.Solver
	Funcs  map[string]bool
}

func (e *Env) NewWorker(solverKind string, timeoutMs int, mirror string) (*Worker, error) {
	s, err := smt.Start(solverKind, timeoutMs)
	if err != nil {
		return nil, err
	}
	if mirror != "" {
		ms, err := smt.Start(mirror, timeoutMs)
		if err != nil {
			return nil, err
		}
		s.Mirror = ms
	}
	return &Worker{env: e, b: smt.NewBuilder(), solver: s, Funcs: map[string]bool{}}, nil
}

func (w *Worker) Close() { w.solver.Close() }

func (w *Worker) SolverStats() (queries int, errors int, unknowns int, t time.Duration) {
	return w.solver.Queries, w.solver.Errors, w.solver.Unknowns, w.solver.SolveTime
}

func (e *Env) lookupEntry(entry string) *ssa.Function {
	i := strings.LastIndex(entry, ".")
	if i < 0 {
		return nil
	}
	p := e.Pkgs[entry[:i]]
	if p == nil {
		return nil
	}
	return p.Func(entry[i+1:])
}

// Run executes one path.
func (w *Worker) Run(o RunOpts) (out PathOutcome) {
	e := w.env
	fn := e.lookupEntry(o.Entry)
	if fn == nil {
		return PathOutcome{Status: "unsupported", Msg: "entry function not found: " + o.Entry}
	}
	w.b.Reset()
	w.solver.Reset()
	m := &machine{
		b: w.b, solver: w.solver,
		prefix: o.Prefix, pcSet: map[*smt.Term]bool{}, covers: map[string]bool{}, known: map[string]bool{},
		budget: o.Budget, concrete: o.Concrete, tape: o.Tape, useRng: o.UseRng, rng: o.Seed,
		wantSample: o.WantSample, crossCheck: o.CrossCheck, openKnown: e.OpenKnown,
		symMapOrder: o.SymMapOrder, replayChoices: o.ReplayChoices,
	}
	if m.budget == 0 {
		m.budget = 50_000_000
	}
	if o.CollectFns {
		m.funcsSeen = w.Funcs
	}
	m.initSched()
	m.sc.preempt = o.Preempt
	m.sc.budget = o.PreemptBudget
	if m.sc.budget == 0 {
		m.sc.budget = 2
	}
	i := &interpreter{
		prog:    e.Prog,
		globals: make(map[*ssa.Global]*value),
		sizes:   e.Sizes,
		m:       m,
		env:     e,
		runtimeErrorString: e.runtimeErrorString,
	}
	if o.Trace {
		i.mode |= EnableTracing
	}
	// Globals of all packages get zero storage; inits run only for InitPkgs.
	for _, pkg := range e.Prog.AllPackages() {
		for _, mem := range pkg.Members {
			if g, ok := mem.(*ssa.Global); ok {
				cell := zero(mustDeref(g.Type()))
				i.globals[g] = &cell
			}
		}
	}
	finish := func(status, msg string) {
		out.Status = status
		out.Msg = msg
		out.Decisions = m.taken
		out.NewAlts = m.alts
		out.Covers = m.covers
		out.Known = m.known
		out.Asserts = m.asserts
		out.AssertsTrv = m.trivial
		out.Steps = m.steps
		out.Violation = m.viol
		out.Observed = m.digest
		if m.viol != nil {
			m.viol.Path = fmt.Sprint(m.taken)
		}
	}
	defer m.killThreads()
	defer func() {
		r := recover()
		if r == nil {
			return
		}
		switch p := r.(type) {
		case pathAbort:
			if p.kind == "blocked" && o.DeadlockViolation {
				w.panicViolationID(m, "deadlock", p.msg, finish)
				return
			}
			finish(p.kind, p.msg)
			return
		case wouldBlockPanic:
			finish("blocked", "lock would block outside vnd.WouldBlock: "+p.mutex)
			return
		case targetPanic:
			w.panicViolation(m, "guest panic: "+toStringSafe(p.v), finish)
			return
		case runtime.Error:
			msg := p.Error()
			if isGuestRuntimeError(msg) {
				w.panicViolation(m, "guest runtime error: "+msg, finish)
			} else {
				finish("unsupported", "VM internal error: "+msg+"\n"+string(debug.Stack()))
			}
			return
		case string:
			if strings.HasPrefix(p, "runtime error:") || strings.Contains(p, "interface conversion") || strings.Contains(p, "nil map") || strings.Contains(p, "nil interface") || strings.Contains(p, "nil function") {
				w.panicViolation(m, "guest runtime error: "+p, finish)
			} else {
				finish("unsupported", "VM panic: "+p+"\n"+string(debug.Stack()))
			}
			return
		default:
			finish("unsupported", fmt.Sprintf("VM panic %T: %v\n%s", r, r, debug.Stack()))
		}
	}()
	m.inInit = true
	for _, p := range e.InitPkgs {
		if init := p.Func("init"); init != nil {
			i.runInit(init)
		}
	}
	m.inInit = false
	m.steps = 0
	call(i, nil, fn.Pos(), fn, nil)
	if o.FailAtEnd {
		m.violation(nil, "vacuity-twin", "end of harness reached", nil)
	}
	if o.WantSample && !m.concrete {
		res, model := m.solver.CheckWithModel(nil, m.inputVars())
		if res == smt.Sat {
			out.Sample = m.tapeFromModel(model)
		}
	} else if m.concrete {
		out.Sample = m.tapeFromModel(nil)
	}
	finish("ok", "")
	return
}

func isGuestRuntimeError(msg string) bool {
	return strings.Contains(msg, "index out of range") || strings.Contains(msg, "nil pointer dereference") ||
		strings.Contains(msg, "slice bounds out of range") || strings.Contains(msg, "integer divide by zero") ||
		strings.Contains(msg, "makeslice") || strings.Contains(msg, "interface conversion")
}

func toStringSafe(v value) (s string) {
	defer func() {
		if recover() != nil {
			s = "<unprintable>"
		}
	}()
	if it, ok := v.(iface); ok {
		if str, ok := it.v.(string); ok {
			return str
		}
		return fmt.Sprintf("(%v) %s", it.t, toString(it.v))
	}
	return toString(v)
}

func (w *Worker) panicViolation(m *machine, msg string, finish func(string, string)) {
	w.panicViolationID(m, "panic", msg, finish)
}

func (w *Worker) panicViolationID(m *machine, id, msg string, finish func(string, string)) {
	// an un-recovered guest panic reaching the harness is a violation "panic"
	var model map[string]uint64
	if !m.concrete {
		res, mod := m.solver.CheckWithModel(nil, m.inputVars())
		if res != smt.Sat {
			finish("inconclusive", "no model for panic path: "+msg)
			return
		}
		model = mod
	}
	m.viol = &Violation{AssertID: id, Msg: msg, Tape: m.tapeFromModel(model)}
	finish("violation", id+": "+msg)
}

// runInit executes a package initialiser without descending into the
// initialisers of imported packages (the Env orders them itself).
func (i *interpreter) runInit(init *ssa.Function) {
	call(i, nil, init.Pos(), init, nil)
}
