package vm

// machine: per-path symbolic state (path condition, decisions, solver,
// inputs created by the harness, cover points, verdicts).

import (
	"fmt"
	"go/types"
	"sort"
	"strings"

	"symgo/smt"
)

// sym is a symbolic scalar (integer kinds and bool).
type sym struct {
	t *smt.Term
	k types.BasicKind
}

// symstr is a string some of whose bytes are symbolic. Elements are uint8 or sym.
type symstr []value

// Decision kinds.
const (
	DBranch  = 'b' // arity 2: 0 = true side, 1 = false side
	DConc    = 'c' // concretisation: Val is the chosen value
	DGroup   = 'g' // grouped read of a symbolic index: Chosen = group number
	DChoice  = 'x' // explicit choice (IntRange, lengths, select, map order, scheduler)
	DIdxFork = 'i' // write at symbolic index: Chosen = index
)

type Decision struct {
	Kind   byte
	N      int    // arity as seen when first explored (0 = unknown for DConc)
	Chosen int    // alternative taken
	Val    uint64 // DConc: concrete value
}

func (d Decision) String() string {
	if d.Kind == DConc {
		return fmt.Sprintf("c=%d", d.Val)
	}
	return fmt.Sprintf("%c%d/%d", d.Kind, d.Chosen, d.N)
}

// Abort reasons (panics of type pathAbort unwind the whole execution).
type pathAbort struct {
	kind string // "assume", "violation", "unsupported", "inconclusive", "budget", "blocked", "done", "diverged"
	msg  string
}

type Input struct {
	Tag  string
	Kind string // "byte","bool","u64","int","len","choice"
	Term *smt.Term
	Val  uint64 // concrete (for choices/ints) or model value
	Conc bool
}

type Violation struct {
	AssertID string
	Msg      string
	Tape     []TapeEntry
	Path     string
	Stack    string
}

type TapeEntry struct {
	Tag  string `json:"tag"`
	Kind string `json:"kind"`
	Val  uint64 `json:"val"`
}

type PathOutcome struct {
	Status     string // "ok","assume","violation","unsupported","inconclusive","budget","blocked","diverged","panic"
	Msg        string
	Decisions  []Decision
	NewAlts    [][]Decision // alternative prefixes discovered on this path
	Violation  *Violation
	Covers     map[string]bool
	Asserts    int // assertion queries discharged on this path
	AssertsTrv int // assertions that were concretely true (no query)
	Steps      int64
	Known      map[string]bool // known-finding classes confirmed reachable on this path
	Sample     []TapeEntry     // a witness input for this path (if requested)
	Observed   uint64          // observation digest (concrete mode)
}

type machine struct {
	b      *smt.Builder
	solver *smt.Solver

	prefix []Decision
	pos    int
	taken  []Decision
	alts   [][]Decision

	pc      []*smt.Term
	pcSet   map[*smt.Term]bool
	inputs  []Input
	covers  map[string]bool
	known   map[string]bool
	asserts int
	trivial int
	steps   int64
	budget  int64

	// concrete mode: inputs come from tape or rng instead of being symbolic
	concrete bool
	tape     []TapeEntry
	tapePos  int
	rng      uint64
	useRng   bool
	digest   uint64

	wantSample bool
	crossCheck bool

	// unsafe support
	containers map[*value]*value
	allocType  map[*value]types.Type

	openKnown map[string]bool // ids of open known findings

	// lock monitor & scheduler state live in sched.go
	mon *monitor

	vclock int64 // virtual monotonic time (ns)

	funcsSeen map[string]bool
	queries   int
	viol      *Violation
	sc        *sched
	inInit    bool
	replayChoices bool
	pools     map[*value][]value
	wgs       map[*value]*int
	syncMaps  map[*value]*omap
	timerObjs map[*value]*vtimer
	ptrIDs    map[*value]int
	observer  value
	inObserver bool
	observerCalls int
	symMapOrder bool
	probeName string
}

func (m *machine) abort(kind, format string, args ...any) {
	panic(pathAbort{kind, fmt.Sprintf(format, args...)})
}

func (m *machine) unsupported(format string, args ...any) {
	panic(pathAbort{"unsupported", fmt.Sprintf(format, args...)})
}

// ---------------------------------------------------------------------
// kinds

func kindWidth(k types.BasicKind) int {
	switch k {
	case types.Bool, types.UntypedBool:
		return 0
	case types.Int8, types.Uint8:
		return 8
	case types.Int16, types.Uint16:
		return 16
	case types.Int32, types.Uint32:
		return 32
	case types.Int, types.Uint, types.Int64, types.Uint64, types.Uintptr:
		return 64
	}
	panic(fmt.Sprintf("kindWidth: %v", k))
}

func kindSigned(k types.BasicKind) bool {
	switch k {
	case types.Int, types.Int8, types.Int16, types.Int32, types.Int64:
		return true
	}
	return false
}

func kindOfValue(v value) (types.BasicKind, bool) {
	switch v := v.(type) {
	case sym:
		return v.k, true
	case bool:
		return types.Bool, true
	case int:
		return types.Int, true
	case int8:
		return types.Int8, true
	case int16:
		return types.Int16, true
	case int32:
		return types.Int32, true
	case int64:
		return types.Int64, true
	case uint:
		return types.Uint, true
	case uint8:
		return types.Uint8, true
	case uint16:
		return types.Uint16, true
	case uint32:
		return types.Uint32, true
	case uint64:
		return types.Uint64, true
	case uintptr:
		return types.Uintptr, true
	}
	return 0, false
}

// term converts a scalar value (host or sym) to a term.
func (m *machine) term(v value) *smt.Term {
	switch v := v.(type) {
	case sym:
		return v.t
	case bool:
		return m.b.Bool(v)
	case int:
		return m.b.Const(64, uint64(v))
	case int8:
		return m.b.Const(8, uint64(v))
	case int16:
		return m.b.Const(16, uint64(v))
	case int32:
		return m.b.Const(32, uint64(v))
	case int64:
		return m.b.Const(64, uint64(v))
	case uint:
		return m.b.Const(64, uint64(v))
	case uint8:
		return m.b.Const(8, uint64(v))
	case uint16:
		return m.b.Const(16, uint64(v))
	case uint32:
		return m.b.Const(32, uint64(v))
	case uint64:
		return m.b.Const(64, v)
	case uintptr:
		return m.b.Const(64, uint64(v))
	}
	panic(fmt.Sprintf("term: not a scalar: %T", v))
}

func hostValue(k types.BasicKind, c uint64) value {
	switch k {
	case types.Bool, types.UntypedBool:
		return c != 0
	case types.Int:
		return int(c)
	case types.Int8:
		return int8(c)
	case types.Int16:
		return int16(c)
	case types.Int32:
		return int32(c)
	case types.Int64:
		return int64(c)
	case types.Uint:
		return uint(c)
	case types.Uint8:
		return uint8(c)
	case types.Uint16:
		return uint16(c)
	case types.Uint32:
		return uint32(c)
	case types.Uint64:
		return c
	case types.Uintptr:
		return uintptr(c)
	}
	panic(fmt.Sprintf("hostValue: kind %v", k))
}

// val wraps a term of kind k as a value, folding constants to host values.
func (m *machine) val(t *smt.Term, k types.BasicKind) value {
	if t.IsConst() {
		return hostValue(k, t.C)
	}
	return sym{t, k}
}

func isSym(v value) bool {
	_, ok := v.(sym)
	return ok
}

// ---------------------------------------------------------------------
// path condition, decisions

func (m *machine) addPC(t *smt.Term) {
	if t.IsConst() {
		if t.C == 0 {
			m.abort("inconclusive", "false added to path condition")
		}
		return
	}
	if m.pcSet[t] {
		return
	}
	m.pcSet[t] = true
	m.pc = append(m.pc, t)
	m.solver.Assert(t)
}

func (m *machine) feasible(t *smt.Term) bool {
	if t.IsConst() {
		return t.C != 0
	}
	if m.pcSet[t] {
		return true
	}
	if m.pcSet[m.b.Not(t)] {
		return false
	}
	m.queries++
	switch m.solver.CheckWith(t) {
	case smt.Sat:
		return true
	case smt.Unsat:
		return false
	}
	m.abort("inconclusive", "solver unknown on feasibility query: %s", m.solver.LastError)
	return false
}

// nextDecision returns the recorded decision if still inside the prefix.
func (m *machine) nextDecision(kind byte) (Decision, bool) {
	if m.pos < len(m.prefix) {
		d := m.prefix[m.pos]
		if d.Kind != kind {
			m.abort("diverged", "decision %d: prefix has kind %c, execution wants %c", m.pos, d.Kind, kind)
		}
		m.pos++
		m.taken = append(m.taken, d)
		return d, true
	}
	return Decision{}, false
}

func (m *machine) record(d Decision) {
	m.pos++
	m.taken = append(m.taken, d)
}

func (m *machine) pushAlt(d Decision) {
	alt := make([]Decision, len(m.taken)+1)
	copy(alt, m.taken)
	alt[len(m.taken)] = d
	m.alts = append(m.alts, alt)
}

// branch decides a symbolic condition.
func (m *machine) branch(c *smt.Term) bool {
	if c.IsConst() {
		return c.C != 0
	}
	if m.pcSet[c] {
		return true
	}
	nc := m.b.Not(c)
	if m.pcSet[nc] {
		return false
	}
	if d, ok := m.nextDecision(DBranch); ok {
		if d.Chosen == 0 {
			m.addPC(c)
			return true
		}
		m.addPC(nc)
		return false
	}
	tOK := m.feasible(c)
	var fOK bool
	if !tOK {
		fOK = true // PC is satisfiable, so the other side must be
	} else {
		fOK = m.feasible(nc)
	}
	switch {
	case tOK && fOK:
		m.pushAlt(Decision{Kind: DBranch, N: 2, Chosen: 1})
		m.record(Decision{Kind: DBranch, N: 2, Chosen: 0})
		m.addPC(c)
		return true
	case tOK:
		// implied: recorded with arity 1 so that re-execution follows it
		// without consuming a decision that belongs to a later point
		m.record(Decision{Kind: DBranch, N: 1, Chosen: 0})
		m.addPC(c)
		return true
	default:
		m.record(Decision{Kind: DBranch, N: 1, Chosen: 1})
		m.addPC(nc)
		return false
	}
}

// choose makes an explicit n-ary choice (all alternatives assumed feasible).
func (m *machine) choose(n int, what string) int {
	if n <= 0 {
		m.abort("inconclusive", "choose(%d) %s", n, what)
	}
	if n == 1 {
		return 0
	}
	if d, ok := m.nextDecision(DChoice); ok {
		if d.Chosen >= n {
			m.abort("diverged", "choice %s: prefix chose %d of %d", what, d.Chosen, n)
		}
		return d.Chosen
	}
	for i := n - 1; i >= 1; i-- {
		m.pushAlt(Decision{Kind: DChoice, N: n, Chosen: i})
	}
	m.record(Decision{Kind: DChoice, N: n, Chosen: 0})
	return 0
}

// chooseRec is choose for engine-level nondeterminism (scheduler, select, map
// order): the alternative taken is recorded on the tape as a "choice" entry and
// read back from it when a tape is replayed concretely.
func (m *machine) chooseRec(n int, tag string) int {
	if n <= 1 {
		return 0
	}
	if m.concrete {
		k := 0
		if !m.useRng && m.replayChoices {
			for m.tapePos < len(m.tape) && m.tape[m.tapePos].Kind != "choice" {
				m.abort("diverged", "tape: expected choice %s, found input %s", tag, m.tape[m.tapePos].Tag)
			}
			if m.tapePos < len(m.tape) {
				k = int(m.tape[m.tapePos].Val)
				m.tapePos++
			}
			if k >= n {
				m.abort("diverged", "tape choice %s out of range", tag)
			}
		}
		m.inputs = append(m.inputs, Input{Tag: tag, Kind: "choice", Val: uint64(k), Conc: true})
		return k
	}
	k := m.choose(n, tag)
	m.inputs = append(m.inputs, Input{Tag: tag, Kind: "choice", Val: uint64(k), Conc: true})
	return k
}

const maxConcretise = 1024

// concretise forks over all feasible values of t.
func (m *machine) concretise(t *smt.Term, why string) uint64 {
	if t.IsConst() {
		return t.C
	}
	if d, ok := m.nextDecision(DConc); ok {
		m.addPC(m.b.Eq(t, m.b.Const(t.W, d.Val)))
		return d.Val
	}
	// enumerate feasible values
	var vals []uint64
	m.solver.Push()
	for {
		m.queries++
		res, model := m.solver.CheckWithModel(nil, []*smt.Term{m.probe(t)})
		if res == smt.Unsat {
			break
		}
		if res != smt.Sat {
			m.solver.Pop()
			m.abort("inconclusive", "solver unknown while concretising (%s)", why)
		}
		v := model[m.probeName]
		vals = append(vals, v)
		if len(vals) > maxConcretise {
			m.solver.Pop()
			m.abort("inconclusive", "more than %d values while concretising (%s)", maxConcretise, why)
		}
		m.solver.Assert(m.b.Not(m.b.Eq(t, m.b.Const(t.W, v))))
	}
	m.solver.Pop()
	if len(vals) == 0 {
		m.abort("inconclusive", "no feasible value while concretising (%s)", why)
	}
	sort.Slice(vals, func(i, j int) bool { return vals[i] < vals[j] })
	for i := len(vals) - 1; i >= 1; i-- {
		m.pushAlt(Decision{Kind: DConc, N: len(vals), Chosen: i, Val: vals[i]})
	}
	m.record(Decision{Kind: DConc, N: len(vals), Chosen: 0, Val: vals[0]})
	m.addPC(m.b.Eq(t, m.b.Const(t.W, vals[0])))
	return vals[0]
}

// probe declares a fresh variable equal to t so that its value can be read
// from the model (get-value needs a name). Only valid inside a Push scope.
func (m *machine) probe(t *smt.Term) *smt.Term {
	if t.Op == smt.OpVar {
		m.probeNameSet(t.Name)
		return t
	}
	v := m.b.Var(t.W, "probe")
	m.solver.Declare(v)
	m.solver.Assert(m.b.Eq(v, t))
	m.probeNameSet(v.Name)
	return v
}

func (m *machine) probeNameSet(n string) { m.probeName = n }

// chooseGroup: alternatives are constraints; only feasible ones are explored.
func (m *machine) chooseAmong(kind byte, conds []*smt.Term, what string) int {
	if d, ok := m.nextDecision(kind); ok {
		if d.Chosen >= len(conds) {
			m.abort("diverged", "%s: prefix chose %d of %d", what, d.Chosen, len(conds))
		}
		m.addPC(conds[d.Chosen])
		return d.Chosen
	}
	var feas []int
	for i, c := range conds {
		if m.feasible(c) {
			feas = append(feas, i)
		}
	}
	if len(feas) == 0 {
		m.abort("inconclusive", "%s: no feasible alternative", what)
	}
	if len(feas) == 1 {
		m.record(Decision{Kind: kind, N: 1, Chosen: feas[0]})
		m.addPC(conds[feas[0]])
		return feas[0]
	}
	for j := len(feas) - 1; j >= 1; j-- {
		m.pushAlt(Decision{Kind: kind, N: len(conds), Chosen: feas[j]})
	}
	m.record(Decision{Kind: kind, N: len(conds), Chosen: feas[0]})
	m.addPC(conds[feas[0]])
	return feas[0]
}

// ---------------------------------------------------------------------
// inputs

func (m *machine) nextRand() uint64 {
	m.rng += 0x9e3779b97f4a7c15
	z := m.rng
	z = (z ^ (z >> 30)) * 0xbf58476d1ce4e5b9
	z = (z ^ (z >> 27)) * 0x94d049bb133111eb
	return z ^ (z >> 31)
}

// concreteInput returns the next concrete input in concrete mode.
func (m *machine) concreteInput(tag, kind string, lo, hi uint64) uint64 {
	var v uint64
	if m.useRng {
		r := m.nextRand()
		switch kind {
		case "byte":
			// bias towards interesting bytes
			switch r % 8 {
			case 0:
				v = 0
			case 1:
				v = 1
			case 2:
				v = 0xff
			default:
				v = (r >> 8) & 3 // small alphabet so keys collide
			}
		case "bool":
			v = r & 1
		case "u64":
			switch r % 4 {
			case 0:
				v = (r >> 8) % 8
			default:
				v = (r >> 8) % 4
			}
		default:
			v = lo + (r>>8)%(hi-lo+1)
		}
	} else {
		if m.tapePos >= len(m.tape) {
			m.abort("diverged", "tape exhausted at input %s", tag)
		}
		for m.tapePos < len(m.tape) && m.tape[m.tapePos].Kind == "choice" {
			if m.replayChoices {
				m.abort("diverged", "tape: expected input %s, found choice", tag)
			}
			m.tapePos++
		}
		if m.tapePos >= len(m.tape) {
			m.abort("diverged", "tape exhausted at input %s", tag)
		}
		e := m.tape[m.tapePos]
		m.tapePos++
		v = e.Val
	}
	m.inputs = append(m.inputs, Input{Tag: tag, Kind: kind, Val: v, Conc: true})
	return v
}

func (m *machine) newInput(tag, kind string, w int) *smt.Term {
	t := m.b.Var(w, tag)
	m.solver.Declare(t)
	m.inputs = append(m.inputs, Input{Tag: tag, Kind: kind, Term: t})
	return t
}

func (m *machine) recordChoice(tag, kind string, v uint64) {
	m.inputs = append(m.inputs, Input{Tag: tag, Kind: kind, Val: v, Conc: true})
}

// tapeFromModel builds the replay tape for the current path.
func (m *machine) tapeFromModel(model map[string]uint64) []TapeEntry {
	out := make([]TapeEntry, 0, len(m.inputs))
	for _, in := range m.inputs {
		v := in.Val
		if !in.Conc {
			v = model[in.Term.Name]
		}
		out = append(out, TapeEntry{Tag: in.Tag, Kind: in.Kind, Val: v})
	}
	return out
}

func (m *machine) inputVars() []*smt.Term {
	var vs []*smt.Term
	for _, in := range m.inputs {
		if !in.Conc {
			vs = append(vs, in.Term)
		}
	}
	return vs
}

// ---------------------------------------------------------------------
// assertions

func (m *machine) assert(c value, id string, fr *frame) {
	switch c := c.(type) {
	case bool:
		if c {
			m.trivial++
			return
		}
		m.violation(nil, id, "assertion is concretely false", fr)
	case sym:
		if m.pcSet[c.t] {
			m.trivial++
			return
		}
		nc := m.b.Not(c.t)
		m.queries++
		res, model := m.solver.CheckWithModel(nc, m.inputVars())
		switch res {
		case smt.Unsat:
			if m.crossCheck {
				if other, same := m.solver.CrossCheckWith(nc, res); !same {
					m.abort("inconclusive", "solver disagreement on assertion %s: %v vs %v", id, res, other)
				}
			}
			m.asserts++
			m.addPC(c.t)
		case smt.Sat:
			m.violationModel(model, id, "assertion can be false", fr)
		default:
			m.abort("inconclusive", "solver unknown on assertion %s: %s", id, m.solver.LastError)
		}
	default:
		m.unsupported("Assert on %T", c)
	}
}

func (m *machine) violation(extra *smt.Term, id, msg string, fr *frame) {
	var model map[string]uint64
	if !m.concrete {
		m.queries++
		res, mod := m.solver.CheckWithModel(extra, m.inputVars())
		if res != smt.Sat {
			m.abort("inconclusive", "cannot get model for violation %s (%v)", id, res)
		}
		model = mod
	}
	m.violationModel(model, id, msg, fr)
}

func (m *machine) violationModel(model map[string]uint64, id, msg string, fr *frame) {
	m.viol = &Violation{AssertID: id, Msg: msg, Tape: m.tapeFromModel(model), Stack: stackOf(fr)}
	panic(pathAbort{"violation", id + ": " + msg})
}

func stackOf(fr *frame) string {
	var sb strings.Builder
	for f := fr; f != nil; f = f.caller {
		if f.fn != nil {
			sb.WriteString(f.fn.String())
			sb.WriteString(" <- ")
		}
	}
	return sb.String()
}
