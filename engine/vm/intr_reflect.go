package vm

import (
	"fmt"
	"go/types"
	"reflect"
	"unsafe"
)

// reflect.Value is represented as structure{iface, nil, uintptr(0)} (three
// fields like the real struct); only the operations statedb uses are modelled.

func init() {
	reg := func(name string, f externalFn) { intrinsics[name] = f }
	reg("reflect.ValueOf", func(fr *frame, a []value) value {
		return structure{a[0], unsafe.Pointer(nil), uintptr(0)}
	})
	rvIface := func(v value) iface {
		it, ok := v.(structure)[0].(iface)
		if !ok {
			return iface{}
		}
		return it
	}
	reg("(reflect.Value).Kind", func(fr *frame, a []value) value {
		it := rvIface(a[0])
		if it.t == nil {
			return uint(reflect.Invalid)
		}
		return uint(kindOfType(it.t))
	})
	reg("(reflect.Value).UnsafePointer", func(fr *frame, a []value) value {
		it := rvIface(a[0])
		switch p := it.v.(type) {
		case *value:
			return unsafe.Pointer(p)
		case *vchan:
			return unsafe.Pointer(p)
		}
		fr.i.m.unsupported("reflect.Value.UnsafePointer on %T", it.v)
		return nil
	})
	reg("(reflect.Value).IsValid", func(fr *frame, a []value) value { return rvIface(a[0]).t != nil })
	reg("(reflect.Value).Interface", func(fr *frame, a []value) value { return rvIface(a[0]) })
	// reflect.Select(cases []SelectCase) (chosen int, recv Value, recvOK bool)
	// SelectCase{Dir SelectDir; Chan Value; Send Value}
	reg("reflect.Select", func(fr *frame, a []value) value {
		m := fr.i.m
		var cases []selCase
		for _, c := range a[0].([]value) {
			cs := c.(structure)
			dir := asInt64(cs[0])
			var ch *vchan
			if it, ok := cs[1].(structure)[0].(iface); ok && it.t != nil {
				ch, _ = it.v.(*vchan)
			}
			switch reflect.SelectDir(dir) {
			case reflect.SelectRecv:
				cases = append(cases, selCase{c: ch})
			case reflect.SelectSend:
				cases = append(cases, selCase{c: ch, send: true, v: rvIface(cs[2]).v})
			case reflect.SelectDefault:
				m.unsupported("reflect.Select with default case")
			default:
				// zero SelectCase: ignored by reflect? it panics; treat as never ready
				cases = append(cases, selCase{c: nil})
			}
		}
		chosen, recv, ok := m.selectOp(cases, true)
		rv := structure{iface{}, unsafe.Pointer(nil), uintptr(0)}
		if ok {
			rv[0] = iface{t: types.Typ[types.Invalid], v: recv}
		}
		return tuple{chosen, rv, ok}
	})
}

func kindOfType(t types.Type) reflect.Kind {
	switch u := t.Underlying().(type) {
	case *types.Basic:
		switch u.Kind() {
		case types.Bool:
			return reflect.Bool
		case types.Int:
			return reflect.Int
		case types.Int8:
			return reflect.Int8
		case types.Int16:
			return reflect.Int16
		case types.Int32:
			return reflect.Int32
		case types.Int64:
			return reflect.Int64
		case types.Uint:
			return reflect.Uint
		case types.Uint8:
			return reflect.Uint8
		case types.Uint16:
			return reflect.Uint16
		case types.Uint32:
			return reflect.Uint32
		case types.Uint64:
			return reflect.Uint64
		case types.Uintptr:
			return reflect.Uintptr
		case types.Float32:
			return reflect.Float32
		case types.Float64:
			return reflect.Float64
		case types.String:
			return reflect.String
		case types.UnsafePointer:
			return reflect.UnsafePointer
		}
	case *types.Pointer:
		return reflect.Pointer
	case *types.Struct:
		return reflect.Struct
	case *types.Slice:
		return reflect.Slice
	case *types.Array:
		return reflect.Array
	case *types.Map:
		return reflect.Map
	case *types.Chan:
		return reflect.Chan
	case *types.Signature:
		return reflect.Func
	case *types.Interface:
		return reflect.Interface
	}
	panic(fmt.Sprintf("kindOfType: %s", t))
}
