package vm

import (
	"fmt"
	"go/types"
	"math/bits"
	"unsafe"

	"golang.org/x/tools/go/ssa"

	"symgo/smt"
)

// ---------------------------------------------------------------------
// slice growth: port of runtime.growslice / nextslicecap / roundupsize
// (go1.25, amd64). Capacities are observable (aliasing after append), so the
// VM follows the real allocator's size classes.

var sizeClasses = []int{0, 8, 16, 24, 32, 48, 64, 80, 96, 112, 128, 144, 160, 176, 192, 208, 224, 240, 256, 288, 320, 352, 384, 416, 448, 480, 512, 576, 640, 704, 768, 896, 1024, 1152, 1280, 1408, 1536, 1792, 2048, 2304, 2688, 3072, 3200, 3456, 4096, 4864, 5376, 6144, 6528, 6784, 6912, 8192, 9472, 9728, 10240, 10880, 12288, 13568, 14336, 16384, 18432, 19072, 20480, 21760, 24576, 27264, 28672, 32768}

func roundupsize(size int) int {
	if size <= 32768 {
		for _, c := range sizeClasses {
			if c >= size {
				return c
			}
		}
	}
	const pageSize = 8192
	return (size + pageSize - 1) / pageSize * pageSize
}

func nextslicecap(newLen, oldCap int) int {
	newcap := oldCap
	doublecap := newcap + newcap
	if newLen > doublecap {
		return newLen
	}
	const threshold = 256
	if oldCap < threshold {
		return doublecap
	}
	for {
		newcap += (newcap + 3*threshold) >> 2
		if uint(newcap) >= uint(newLen) {
			break
		}
	}
	if newcap <= 0 {
		return newLen
	}
	return newcap
}

func growCap(oldCap, newLen int, esz int64) int {
	newcap := nextslicecap(newLen, oldCap)
	if esz == 0 {
		return newcap
	}
	mem := roundupsize(newcap * int(esz))
	return mem / int(esz)
}

// roundupCap: capacity of make([]T, n) as allocated (size-class rounding is
// NOT applied by make: cap is exactly as requested).
func roundupCap(c int, esz int64) int { return c }

// copyElems deep-copies aggregate elements (structs/arrays are stored by
// value in Go slices; in the VM they are reference-like host slices).
func copyElems(add []value) []value {
	needs := false
	for _, e := range add {
		switch e.(type) {
		case structure, array:
			needs = true
		}
		break
	}
	if !needs {
		return add
	}
	out := make([]value, len(add))
	for i, e := range add {
		out[i] = copyVal(e)
	}
	return out
}

func appendSlice(old, add []value, esz int64) []value {
	add = copyElems(add)
	newLen := len(old) + len(add)
	if newLen <= cap(old) {
		return append(old, add...)
	}
	nc := growCap(cap(old), newLen, esz)
	if nc < newLen {
		nc = newLen
	}
	out := make([]value, newLen, nc)
	copy(out, copyElems(old)) // aggregates are values: the old backing array keeps its own copies
	copy(out[len(old):], add)
	return out
}

// ---------------------------------------------------------------------

func copyVal(v value) value {
	switch v := v.(type) {
	case structure:
		a := make(structure, len(v))
		for i := range v {
			a[i] = copyVal(v[i])
		}
		return a
	case array:
		a := make(array, len(v))
		for i := range v {
			a[i] = copyVal(v[i])
		}
		return a
	}
	return v
}

func (m *machine) minmax(a, b value, isMin bool) value {
	if isSym(a) || isSym(b) {
		k, _ := kindOfValue(a)
		ta, tb := m.term(a), m.term(b)
		op := smt.OpUlt
		if kindSigned(k) {
			op = smt.OpSlt
		}
		lt := m.b.Bin(op, ta, tb)
		if isMin {
			return m.val(m.b.Ite(lt, ta, tb), k)
		}
		return m.val(m.b.Ite(lt, tb, ta), k)
	}
	if isMin {
		return min(a, b)
	}
	return max(a, b)
}

// ---------------------------------------------------------------------
// unsafe.Pointer support: container registry

var embedsStructCache = map[types.Type]bool{}

func firstFieldStruct(t types.Type) (*types.Struct, types.Type) {
	st, ok := t.Underlying().(*types.Struct)
	if !ok || st.NumFields() == 0 {
		return nil, nil
	}
	ft := st.Field(0).Type()
	if _, ok := ft.Underlying().(*types.Struct); ok {
		return st, ft
	}
	return nil, nil
}

func (m *machine) registerAlloc(addr *value, t types.Type) {
	st, ft := firstFieldStruct(t)
	if st == nil {
		return
	}
	if m.containers == nil {
		m.containers = map[*value]*value{}
		m.allocType = map[*value]types.Type{}
	}
	m.allocType[addr] = t
	f0 := &(*addr).(structure)[0]
	m.containers[f0] = addr
	m.allocType[f0] = ft
	m.registerAlloc(f0, ft)
}

func (m *machine) fromUnsafePointer(dst types.Type, x value) value {
	pt, ok := dst.Underlying().(*types.Pointer)
	if !ok {
		if b, ok := dst.Underlying().(*types.Basic); ok && (b.Kind() == types.UnsafePointer) {
			return x
		}
		m.unsupported("conversion from unsafe.Pointer to %s", dst)
	}
	var p *value
	switch x := x.(type) {
	case unsafe.Pointer:
		p = (*value)(x)
	default:
		m.unsupported("unsafe.Pointer value of dynamic type %T", x)
	}
	if p == nil {
		return (*value)(nil)
	}
	want := pt.Elem()
	// walk up (field 0 -> container) and down (container -> field 0)
	for cur := p; cur != nil; cur = m.containers[cur] {
		if at, ok := m.allocType[cur]; ok && types.Identical(at, want) {
			return cur
		}
	}
	for cur := p; cur != nil; {
		at, ok := m.allocType[cur]
		if !ok {
			break
		}
		if types.Identical(at, want) {
			return cur
		}
		st, _ := firstFieldStruct(at)
		if st == nil {
			break
		}
		cur = &(*cur).(structure)[0]
	}
	// same dynamic representation (e.g. *T -> unsafe.Pointer -> *T for non-registered T)
	if _, ok := m.allocType[p]; !ok {
		return p
	}
	// The pointer belongs to an allocation of a different struct type (e.g. a radix node
	// header cast to a node kind other than the one it was allocated as). The real code
	// never does this on a well-formed tree: the access that follows would read or write at
	// the wrong offset. Reported as a memory-safety violation; the check confirms it by
	// replaying the inputs against the real build (any failure there counts) and reports an
	// engine mismatch otherwise.
	m.violation(nil, "memory-safety.unsafe-cast", fmt.Sprintf("unsafe cast: pointer into a value of type %s converted to *%s", m.allocType[p], want), nil)
	return nil
}


func (m *machine) noteFunc(fn *ssa.Function) {
	if m.funcsSeen != nil {
		m.funcsSeen[fn.String()] = true
	}
}

var _ = bits.Len
var _ = fmt.Sprint

// assignInPlace stores aggregate v into the existing storage at dst (field by
// field) so that pointers into the destination stay valid, like store().
func assignInPlace(dst *value, v value) {
	switch v := v.(type) {
	case structure:
		if d, ok := (*dst).(structure); ok && len(d) == len(v) {
			for i := range v {
				assignInPlace(&d[i], v[i])
			}
			return
		}
	case array:
		if d, ok := (*dst).(array); ok && len(d) == len(v) {
			for i := range v {
				assignInPlace(&d[i], v[i])
			}
			return
		}
	}
	*dst = v
}
