package vm

// Host bridge for reflection-driven serialisation libraries.
//
// encoding/json and go.yaml.in/yaml/v3 are not interpreted: they walk their
// arguments with package reflect, which the VM only models superficially.
// They are environment for statedb, so the VM calls the *real* library on the
// host with a copy of the (concrete) VM value and copies the result back.
// Symbolic parts of an argument are concretised first (one path per feasible
// value, decided by the solver), so harnesses keep such values in small
// ranges. The marshalling methods of statedb types (MarshalJSON,
// UnmarshalJSON, MarshalYAML, UnmarshalYAML) are still interpreted; only the
// library calls they make cross the bridge. Types with methods cannot cross
// (their methods would be lost on the host side): that is reported as
// unsupported, never silently accepted.

import (
	"bytes"
	"encoding/json"
	"fmt"
	"go/types"
	"reflect"

	"go.yaml.in/yaml/v3"
)

const yamlPath = "go.yaml.in/yaml/v3"

type hostBridge struct {
	m     *machine
	env   *Env
	types map[types.Type]reflect.Type
}

func bridgeOf(fr *frame) *hostBridge {
	return &hostBridge{m: fr.i.m, env: fr.i.env, types: map[types.Type]reflect.Type{}}
}

var anyType = reflect.TypeOf((*any)(nil)).Elem()

func (h *hostBridge) hostType(t types.Type) reflect.Type {
	if rt, ok := h.types[t]; ok {
		return rt
	}
	rt := h.hostType1(t)
	h.types[t] = rt
	return rt
}

func (h *hostBridge) hostType1(t types.Type) reflect.Type {
	t = types.Unalias(t)
	if n, ok := t.(*types.Named); ok {
		if o := n.Obj(); o.Pkg() != nil && o.Pkg().Path() == yamlPath {
			switch o.Name() {
			case "Node":
				return reflect.TypeOf(yaml.Node{})
			case "Kind":
				return reflect.TypeOf(yaml.Kind(0))
			case "Style":
				return reflect.TypeOf(yaml.Style(0))
			}
		}
		if n.NumMethods() > 0 {
			h.m.unsupported("host bridge: type %s has methods (they would be lost on the host side)", n)
		}
		return h.hostType(n.Underlying())
	}
	switch t := t.(type) {
	case *types.Basic:
		switch t.Kind() {
		case types.Bool, types.UntypedBool:
			return reflect.TypeOf(false)
		case types.Int, types.UntypedInt:
			return reflect.TypeOf(int(0))
		case types.Int8:
			return reflect.TypeOf(int8(0))
		case types.Int16:
			return reflect.TypeOf(int16(0))
		case types.Int32, types.UntypedRune:
			return reflect.TypeOf(int32(0))
		case types.Int64:
			return reflect.TypeOf(int64(0))
		case types.Uint:
			return reflect.TypeOf(uint(0))
		case types.Uint8:
			return reflect.TypeOf(uint8(0))
		case types.Uint16:
			return reflect.TypeOf(uint16(0))
		case types.Uint32:
			return reflect.TypeOf(uint32(0))
		case types.Uint64:
			return reflect.TypeOf(uint64(0))
		case types.Uintptr:
			return reflect.TypeOf(uintptr(0))
		case types.Float32:
			return reflect.TypeOf(float32(0))
		case types.Float64, types.UntypedFloat:
			return reflect.TypeOf(float64(0))
		case types.String, types.UntypedString:
			return reflect.TypeOf("")
		}
	case *types.Struct:
		var fs []reflect.StructField
		for i := 0; i < t.NumFields(); i++ {
			f := t.Field(i)
			if !f.Exported() || f.Embedded() {
				h.m.unsupported("host bridge: struct field %s is unexported or embedded", f.Name())
			}
			fs = append(fs, reflect.StructField{Name: f.Name(), Type: h.hostType(f.Type()), Tag: reflect.StructTag(t.Tag(i))})
		}
		return reflect.StructOf(fs)
	case *types.Slice:
		return reflect.SliceOf(h.hostType(t.Elem()))
	case *types.Array:
		return reflect.ArrayOf(int(t.Len()), h.hostType(t.Elem()))
	case *types.Map:
		return reflect.MapOf(h.hostType(t.Key()), h.hostType(t.Elem()))
	case *types.Pointer:
		return reflect.PointerTo(h.hostType(t.Elem()))
	case *types.Interface:
		if t.NumMethods() == 0 {
			return anyType
		}
	}
	h.m.unsupported("host bridge: type %s", t)
	return nil
}

// concrete returns v with a symbolic scalar replaced by one feasible value.
func (h *hostBridge) concrete(v value) value {
	if s, ok := v.(sym); ok {
		return hostValue(s.k, h.m.concretise(s.t, "value passed to a host library"))
	}
	return v
}

func (h *hostBridge) toHost(t types.Type, v value) reflect.Value {
	rt := h.hostType(t)
	out := reflect.New(rt).Elem()
	h.fill(out, t, v)
	return out
}

func (h *hostBridge) fill(dst reflect.Value, t types.Type, v value) {
	t = types.Unalias(t)
	switch u := t.Underlying().(type) {
	case *types.Basic:
		v = h.concrete(v)
		switch x := v.(type) {
		case bool:
			dst.SetBool(x)
		case string:
			dst.SetString(x)
		case symstr:
			bs := make([]byte, len(x))
			for i, b := range x {
				bs[i] = h.concrete(b).(uint8)
			}
			dst.SetString(string(bs))
		case float32:
			dst.SetFloat(float64(x))
		case float64:
			dst.SetFloat(x)
		default:
			rv := reflect.ValueOf(x)
			switch {
			case rv.CanInt():
				dst.SetInt(rv.Int())
			case rv.CanUint():
				dst.SetUint(rv.Uint())
			default:
				h.m.unsupported("host bridge: basic value %T", x)
			}
		}
	case *types.Struct:
		s := v.(structure)
		for i := 0; i < u.NumFields(); i++ {
			h.fill(dst.Field(i), u.Field(i).Type(), s[i])
		}
	case *types.Slice:
		xs, _ := v.([]value)
		if xs == nil {
			return // nil slice
		}
		sl := reflect.MakeSlice(dst.Type(), len(xs), len(xs))
		for i, x := range xs {
			h.fill(sl.Index(i), u.Elem(), x)
		}
		dst.Set(sl)
	case *types.Array:
		for i, x := range v.(array) {
			h.fill(dst.Index(i), u.Elem(), x)
		}
	case *types.Map:
		om, _ := v.(*omap)
		if om == nil {
			return
		}
		mp := reflect.MakeMap(dst.Type())
		for _, e := range om.ents {
			if !e.live {
				continue
			}
			k := reflect.New(dst.Type().Key()).Elem()
			h.fill(k, u.Key(), e.k)
			x := reflect.New(dst.Type().Elem()).Elem()
			h.fill(x, u.Elem(), e.v)
			mp.SetMapIndex(k, x)
		}
		dst.Set(mp)
	case *types.Pointer:
		p, _ := v.(*value)
		if p == nil {
			return
		}
		n := reflect.New(dst.Type().Elem())
		h.fill(n.Elem(), u.Elem(), *p)
		dst.Set(n)
	case *types.Interface:
		x, _ := v.(iface)
		if x.t == nil {
			return
		}
		dst.Set(h.toHost(x.t, x.v))
	default:
		h.m.unsupported("host bridge: value of type %s", t)
	}
}

func (h *hostBridge) fromHost(t types.Type, rv reflect.Value) value {
	t = types.Unalias(t)
	switch u := t.Underlying().(type) {
	case *types.Basic:
		switch u.Kind() {
		case types.Bool:
			return rv.Bool()
		case types.String:
			return rv.String()
		case types.Float32:
			return float32(rv.Float())
		case types.Float64:
			return rv.Float()
		}
		if rv.CanInt() {
			return hostValue(u.Kind(), uint64(rv.Int()))
		}
		if rv.CanUint() {
			return hostValue(u.Kind(), rv.Uint())
		}
	case *types.Struct:
		s := make(structure, u.NumFields())
		for i := range s {
			s[i] = h.fromHost(u.Field(i).Type(), rv.Field(i))
		}
		return s
	case *types.Slice:
		if rv.IsNil() {
			return []value(nil)
		}
		xs := make([]value, rv.Len())
		for i := range xs {
			xs[i] = h.fromHost(u.Elem(), rv.Index(i))
		}
		return xs
	case *types.Array:
		xs := make(array, rv.Len())
		for i := range xs {
			xs[i] = h.fromHost(u.Elem(), rv.Index(i))
		}
		return xs
	case *types.Map:
		if rv.IsNil() {
			return (*omap)(nil)
		}
		om := makeMap(u.Key(), 0).(*omap)
		// deterministic order: sort by formatted key
		keys := rv.MapKeys()
		sortValues(keys)
		for _, k := range keys {
			om.set(h.m, h.fromHost(u.Key(), k), h.fromHost(u.Elem(), rv.MapIndex(k)))
		}
		return om
	case *types.Pointer:
		if rv.IsNil() {
			return (*value)(nil)
		}
		p := new(value)
		*p = h.fromHost(u.Elem(), rv.Elem())
		h.m.registerAlloc(p, u.Elem())
		return p
	case *types.Interface:
		if rv.IsNil() {
			return iface{}
		}
		return h.anyFromHost(rv.Elem())
	}
	h.m.unsupported("host bridge: result of type %s", t)
	return nil
}

func sortValues(vs []reflect.Value) {
	for i := 1; i < len(vs); i++ {
		for j := i; j > 0 && fmt.Sprint(vs[j-1].Interface()) > fmt.Sprint(vs[j].Interface()); j-- {
			vs[j-1], vs[j] = vs[j], vs[j-1]
		}
	}
}

// anyFromHost converts a dynamically typed host value of the kinds that
// decoders produce (bool, float64, string, json.Delim, nil) to a VM interface.
func (h *hostBridge) anyFromHost(rv reflect.Value) value {
	switch x := rv.Interface().(type) {
	case bool:
		return iface{t: types.Typ[types.Bool], v: x}
	case float64:
		return iface{t: types.Typ[types.Float64], v: x}
	case string:
		return iface{t: types.Typ[types.String], v: x}
	case json.Delim:
		if p := h.env.Pkgs["encoding/json"]; p != nil {
			return iface{t: p.Type("Delim").Object().Type(), v: int32(x)}
		}
	case json.Number:
		if p := h.env.Pkgs["encoding/json"]; p != nil {
			return iface{t: p.Type("Number").Object().Type(), v: string(x)}
		}
	}
	h.m.unsupported("host bridge: dynamic host value %s", rv.Type())
	return nil
}

func (h *hostBridge) bytesToHost(v value) []byte {
	xs, _ := v.([]value)
	bs := make([]byte, len(xs))
	for i, b := range xs {
		bs[i] = h.concrete(b).(uint8)
	}
	return bs
}

func bytesFromHost(bs []byte) value {
	if bs == nil {
		return []value(nil)
	}
	xs := make([]value, len(bs))
	for i, b := range bs {
		xs[i] = b
	}
	return xs
}

func (h *hostBridge) errFromHost(fr *frame, err error) value {
	if err == nil {
		return iface{}
	}
	return call(fr.i, fr, 0, fr.i.env.Pkgs["errors"].Func("New"), []value{err.Error()})
}

// decodeInto runs dec(ptr) on a host copy of *target and stores the result back.
func (h *hostBridge) decodeInto(fr *frame, target value, dec func(ptr any) error) value {
	x, ok := target.(iface)
	if !ok || x.t == nil {
		return h.errFromHost(fr, fmt.Errorf("decode into nil"))
	}
	pt, ok := types.Unalias(x.t).Underlying().(*types.Pointer)
	if !ok {
		return h.errFromHost(fr, fmt.Errorf("decode into non-pointer %s", x.t))
	}
	p := x.v.(*value)
	hv := reflect.New(h.hostType(pt.Elem()))
	h.fill(hv.Elem(), pt.Elem(), *p) // decoders merge into the existing value
	err := dec(hv.Interface())
	assignInPlace(p, h.fromHost(pt.Elem(), hv.Elem()))
	return h.errFromHost(fr, err)
}

func registerHostIntrinsics(reg func(string, externalFn)) {
	reg("encoding/json.Marshal", func(fr *frame, a []value) value {
		h := bridgeOf(fr)
		x := a[0].(iface)
		var hv any
		if x.t != nil {
			hv = h.toHost(x.t, x.v).Interface()
		}
		bs, err := json.Marshal(hv)
		return tuple{bytesFromHost(bs), h.errFromHost(fr, err)}
	})
	reg("encoding/json.Unmarshal", func(fr *frame, a []value) value {
		h := bridgeOf(fr)
		data := h.bytesToHost(a[0])
		return h.decodeInto(fr, a[1], func(p any) error { return json.Unmarshal(data, p) })
	})
	reg("encoding/json.NewDecoder", func(fr *frame, a []value) value {
		h := bridgeOf(fr)
		r := a[0].(iface)
		// only *bytes.Reader sources: take the unread part
		n, ok := types.Unalias(r.t).(*types.Pointer)
		if !ok || n.Elem().String() != "bytes.Reader" {
			fr.i.m.unsupported("json.NewDecoder on %s (only *bytes.Reader)", r.t)
		}
		st := (*r.v.(*value)).(structure)
		data := h.bytesToHost(st[0])
		off := int(fr.i.m.asInt64(st[1]))
		var v value = hostObj{json.NewDecoder(bytes.NewReader(data[off:]))}
		return &v
	})
	hostDec := func(v value) *json.Decoder { return (*v.(*value)).(hostObj).v.(*json.Decoder) }
	reg("(*encoding/json.Decoder).Token", func(fr *frame, a []value) value {
		h := bridgeOf(fr)
		t, err := hostDec(a[0]).Token()
		var tv value = iface{}
		if t != nil {
			tv = h.anyFromHost(reflect.ValueOf(t))
		}
		return tuple{tv, h.errFromHost(fr, err)}
	})
	reg("(*encoding/json.Decoder).More", func(fr *frame, a []value) value {
		return hostDec(a[0]).More()
	})
	reg("(*encoding/json.Decoder).Decode", func(fr *frame, a []value) value {
		h := bridgeOf(fr)
		d := hostDec(a[0])
		return h.decodeInto(fr, a[1], func(p any) error { return d.Decode(p) })
	})

	reg(yamlPath+".Marshal", func(fr *frame, a []value) value {
		h := bridgeOf(fr)
		x := a[0].(iface)
		var hv any
		if x.t != nil {
			hv = h.toHost(x.t, x.v).Interface()
		}
		bs, err := yaml.Marshal(hv)
		return tuple{bytesFromHost(bs), h.errFromHost(fr, err)}
	})
	reg(yamlPath+".Unmarshal", func(fr *frame, a []value) value {
		h := bridgeOf(fr)
		data := h.bytesToHost(a[0])
		return h.decodeInto(fr, a[1], func(p any) error { return yaml.Unmarshal(data, p) })
	})
	reg("(*"+yamlPath+".Node).Decode", func(fr *frame, a []value) value {
		h := bridgeOf(fr)
		np := a[0].(*value)
		nt := fr.i.env.Pkgs[yamlPath].Type("Node").Object().Type()
		node := h.toHost(nt, *np).Addr().Interface().(*yaml.Node)
		return h.decodeInto(fr, a[1], func(p any) error { return node.Decode(p) })
	})
}
