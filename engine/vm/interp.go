// Copyright 2013 The Go Authors. All rights reserved.
// Use of this source code is governed by a BSD-style
// license that can be found in the LICENSE file.

// Package ssa/interp defines an interpreter for the SSA
// representation of Go programs.
//
// This interpreter is provided as an adjunct for testing the SSA
// construction algorithm.  Its purpose is to provide a minimal
// metacircular implementation of the dynamic semantics of each SSA
// instruction.  It is not, and will never be, a production-quality Go
// interpreter.
//
// The following is a partial list of Go features that are currently
// unsupported or incomplete in the interpreter.
//
// * Unsafe operations, including all uses of unsafe.Pointer, are
// impossible to support given the "boxed" value representation we
// have chosen.
//
// * The reflect package is only partially implemented.
//
// * The "testing" package is no longer supported because it
// depends on low-level details that change too often.
//
// * "sync/atomic" operations are not atomic due to the "boxed" value
// representation: it is not possible to read, modify and write an
// interface value atomically. As a consequence, Mutexes are currently
// broken.
//
// * recover is only partially implemented.  Also, the interpreter
// makes no attempt to distinguish target panics from interpreter
// crashes.
//
// * the sizes of the int, uint and uintptr types in the target
// program are assumed to be the same as those of the interpreter
// itself.
//
// * all values occupy space, even those of types defined by the spec
// to have zero size, e.g. struct{}.  This can cause asymptotic
// performance degradation.
//
// * os.Exit is implemented using panic, causing deferred functions to
// run.
package vm

import (
	"fmt"
	"go/token"
	"go/types"
	"log"
	"os"
	"runtime"
	"slices"

	"golang.org/x/tools/go/ssa"
)

type continuation int

const (
	kNext continuation = iota
	kReturn
	kJump
)

// Mode is a bitmask of options affecting the interpreter.
type Mode uint

const (
	DisableRecover Mode = 1 << iota // Disable recover() in target programs; show interpreter crash instead.
	EnableTracing                   // Print a trace of all instructions as they are interpreted.
)

type methodSet map[string]*ssa.Function

// State shared between all interpreted goroutines.
type interpreter struct {
	osArgs             []value                // the value of os.Args
	prog               *ssa.Program           // the SSA program
	globals            map[*ssa.Global]*value // addresses of global variables (immutable)
	mode               Mode                   // interpreter options
	reflectPackage     *ssa.Package           // the fake reflect package
	errorMethods       methodSet              // the method set of reflect.error, which implements the error interface.
	rtypeMethods       methodSet              // the method set of rtype, which implements the reflect.Type interface.
	runtimeErrorString types.Type             // the runtime.errorString type (iff "runtime" is present)
	sizes              types.Sizes            // the effective type-sizing function
	goroutines         int32                  // atomically updated
	m                  *machine               // symbolic state of the current path
	env                *Env                   // shared, read-only program environment
}

type deferred struct {
	fn    value
	args  []value
	instr *ssa.Defer
	tail  *deferred
}

type frame struct {
	i                *interpreter
	caller           *frame
	fn               *ssa.Function
	block, prevBlock *ssa.BasicBlock
	env              map[ssa.Value]value // dynamic values of SSA variables
	locals           []value
	defers           *deferred
	result           value
	panicking        bool
	panic            any
	phitemps         []value // temporaries for parallel phi assignment
}

func (fr *frame) get(key ssa.Value) value {
	switch key := key.(type) {
	case nil:
		// Hack; simplifies handling of optional attributes
		// such as ssa.Slice.{Low,High}.
		return nil
	case *ssa.Function, *ssa.Builtin:
		return key
	case *ssa.Const:
		return constValue(key)
	case *ssa.Global:
		if r, ok := fr.i.globals[key]; ok {
			return r
		}
	}
	if r, ok := fr.env[key]; ok {
		return r
	}
	panic(fmt.Sprintf("get: no value for %T: %v", key, key.Name()))
}

// runDefer runs a deferred call d.
// It always returns normally, but may set or clear fr.panic.
func (fr *frame) runDefer(d *deferred) {
	if fr.i.mode&EnableTracing != 0 {
		fmt.Fprintf(os.Stderr, "%s: invoking deferred function call\n",
			fr.i.prog.Fset.Position(d.instr.Pos()))
	}
	var ok bool
	defer func() {
		if !ok {
			// Deferred call created a new state of panic.
			fr.panicking = true
			fr.panic = recover()
		}
	}()
	call(fr.i, fr, d.instr.Pos(), d.fn, d.args)
	ok = true
}

// runDefers executes fr's deferred function calls in LIFO order.
//
// On entry, fr.panicking indicates a state of panic; if
// true, fr.panic contains the panic value.
//
// On completion, if a deferred call started a panic, or if no
// deferred call recovered from a previous state of panic, then
// runDefers itself panics after the last deferred call has run.
//
// If there was no initial state of panic, or it was recovered from,
// runDefers returns normally.
func (fr *frame) runDefers() {
	for d := fr.defers; d != nil; d = d.tail {
		fr.runDefer(d)
	}
	fr.defers = nil
	if fr.panicking {
		panic(fr.panic) // new panic, or still panicking
	}
}

// lookupMethod returns the method set for type typ, which may be one
// of the interpreter's fake types.
func lookupMethod(i *interpreter, typ types.Type, meth *types.Func) *ssa.Function {
	return i.prog.LookupMethod(typ, meth.Pkg(), meth.Name())
}

// visitInstr interprets a single ssa.Instruction within the activation
// record frame.  It returns a continuation value indicating where to
// read the next instruction from.
func visitInstr(fr *frame, instr ssa.Instruction) continuation {
	switch instr := instr.(type) {
	case *ssa.DebugRef:
		// no-op

	case *ssa.UnOp:
		fr.env[instr] = unop(fr, instr, fr.get(instr.X))

	case *ssa.BinOp:
		fr.env[instr] = binop(fr.i.m, instr.Op, instr.X.Type(), fr.get(instr.X), fr.get(instr.Y))

	case *ssa.Call:
		fn, args := prepareCall(fr, &instr.Call)
		fr.env[instr] = call(fr.i, fr, instr.Pos(), fn, args)

	case *ssa.ChangeInterface:
		fr.env[instr] = fr.get(instr.X)

	case *ssa.ChangeType:
		fr.env[instr] = fr.get(instr.X) // (can't fail)

	case *ssa.Convert:
		fr.env[instr] = conv(fr.i.m, instr.Type(), instr.X.Type(), fr.get(instr.X))

	case *ssa.SliceToArrayPointer:
		fr.env[instr] = sliceToArrayPointer(instr.Type(), instr.X.Type(), fr.get(instr.X))

	case *ssa.MakeInterface:
		fr.env[instr] = iface{t: instr.X.Type(), v: fr.get(instr.X)}

	case *ssa.Extract:
		fr.env[instr] = fr.get(instr.Tuple).(tuple)[instr.Index]

	case *ssa.Slice:
		fr.env[instr] = slice(fr.i.m, fr.get(instr.X), fr.get(instr.Low), fr.get(instr.High), fr.get(instr.Max))

	case *ssa.Return:
		switch len(instr.Results) {
		case 0:
		case 1:
			fr.result = fr.get(instr.Results[0])
		default:
			var res []value
			for _, r := range instr.Results {
				res = append(res, fr.get(r))
			}
			fr.result = tuple(res)
		}
		fr.block = nil
		return kReturn

	case *ssa.RunDefers:
		fr.runDefers()

	case *ssa.Panic:
		panic(targetPanic{fr.get(instr.X)})

	case *ssa.Send:
		fr.i.m.chanSend(fr.get(instr.Chan).(*vchan), fr.get(instr.X))

	case *ssa.Store:
		switch addr := fr.get(instr.Addr).(type) {
		case *value:
			store(mustDeref(instr.Addr.Type()), addr, fr.get(instr.Val))
		case symAddr:
			i := fr.i.m.symWriteIndex(addr.idx, len(addr.elems))
			store(mustDeref(instr.Addr.Type()), &addr.elems[i], fr.get(instr.Val))
		default:
			panic(fmt.Sprintf("store: unexpected address %T", addr))
		}

	case *ssa.If:
		succ := 1
		switch c := fr.get(instr.Cond).(type) {
		case bool:
			if c {
				succ = 0
			}
		case sym:
			if fr.i.m.branch(c.t) {
				succ = 0
			}
		default:
			panic(fmt.Sprintf("if: unexpected condition %T", c))
		}
		fr.prevBlock, fr.block = fr.block, fr.block.Succs[succ]
		return kJump

	case *ssa.Jump:
		fr.prevBlock, fr.block = fr.block, fr.block.Succs[0]
		return kJump

	case *ssa.Defer:
		fn, args := prepareCall(fr, &instr.Call)
		defers := &fr.defers
		if into := fr.get(instr.DeferStack); into != nil {
			defers = into.(**deferred)
		}
		*defers = &deferred{
			fn:    fn,
			args:  args,
			instr: instr,
			tail:  *defers,
		}

	case *ssa.Go:
		fn, args := prepareCall(fr, &instr.Call)
		i := fr.i
		pos := instr.Pos()
		i.m.spawn(fmt.Sprint(instr.Call.Value), func() {
			call(i, nil, pos, fn, args)
		})
		if i.m.sc.preempt >= 1 {
			i.m.yield()
		}

	case *ssa.MakeChan:
		fr.env[instr] = fr.i.m.newChan(int(fr.i.m.asInt64(fr.get(instr.Size))))

	case *ssa.Alloc:
		var addr *value
		if instr.Heap {
			// new
			addr = new(value)
			fr.env[instr] = addr
		} else {
			// local
			addr = fr.env[instr].(*value)
		}
		et := mustDeref(instr.Type())
		*addr = zero(et)
		fr.i.m.registerAlloc(addr, et)

	case *ssa.MakeSlice:
		tElt := instr.Type().Underlying().(*types.Slice).Elem()
		n := fr.i.m.asInt64(fr.get(instr.Len))
		c := fr.i.m.asInt64(fr.get(instr.Cap))
		if n < 0 || c < n {
			panic("runtime error: makeslice: len out of range")
		}
		c = int64(roundupCap(int(c), fr.i.sizes.Sizeof(tElt)))
		slice := make([]value, c)
		for i := range slice {
			slice[i] = zero(tElt)
		}
		fr.env[instr] = slice[:n]

	case *ssa.MakeMap:
		var reserve int64
		if instr.Reserve != nil {
			reserve = asInt64(fr.get(instr.Reserve))
		}
		if !fitsInt(reserve, fr.i.sizes) {
			panic(fmt.Sprintf("ssa.MakeMap.Reserve value %d does not fit in int", reserve))
		}
		fr.env[instr] = makeMap(instr.Type().Underlying().(*types.Map).Key(), reserve)
		_ = reserve

	case *ssa.Range:
		fr.env[instr] = rangeIter(fr.i.m, fr.get(instr.X))

	case *ssa.Next:
		fr.env[instr] = fr.get(instr.Iter).(iter).next()

	case *ssa.FieldAddr:
		fr.env[instr] = &(*fr.get(instr.X).(*value)).(structure)[instr.Field]

	case *ssa.Field:
		fr.env[instr] = fr.get(instr.X).(structure)[instr.Field]

	case *ssa.IndexAddr:
		x := fr.get(instr.X)
		idx := fr.get(instr.Index)
		var elems []value
		switch x := x.(type) {
		case []value:
			elems = x
		case *value: // *array
			elems = (*x).(array)
		default:
			panic(fmt.Sprintf("unexpected x type in IndexAddr: %T", x))
		}
		if si, ok := idx.(sym); ok {
			fr.i.m.checkIndex(si, len(elems))
			if onlyLoadStoreRefs(instr) {
				fr.env[instr] = symAddr{elems, si}
			} else {
				i := fr.i.m.symWriteIndex(si, len(elems))
				fr.env[instr] = &elems[i]
			}
		} else {
			fr.env[instr] = &elems[asInt64(idx)]
		}

	case *ssa.Index:
		x := fr.get(instr.X)
		idx := fr.get(instr.Index)

		if si, ok := idx.(sym); ok {
			var elems []value
			switch x := x.(type) {
			case array:
				elems = x
			case string, symstr:
				elems = strBytes(x)
			default:
				panic(fmt.Sprintf("unexpected x type in Index: %T", x))
			}
			fr.i.m.checkIndex(si, len(elems))
			fr.env[instr] = fr.i.m.symRead(elems, si)
		} else {
			switch x := x.(type) {
			case array:
				fr.env[instr] = x[asInt64(idx)]
			case string:
				fr.env[instr] = x[asInt64(idx)]
			case symstr:
				fr.env[instr] = x[asInt64(idx)]
			default:
				panic(fmt.Sprintf("unexpected x type in Index: %T", x))
			}
		}

	case *ssa.Lookup:
		fr.env[instr] = lookup(fr.i.m, instr, fr.get(instr.X), fr.get(instr.Index))

	case *ssa.MapUpdate:
		m := fr.get(instr.Map)
		key := fr.get(instr.Key)
		v := fr.get(instr.Value)
		switch mm := m.(type) {
		case *omap:
			if mm == nil {
				panic("assignment to entry in nil map")
			}
			mm.set(fr.i.m, key, v)
		default:
			panic(fmt.Sprintf("illegal map type: %T", m))
		}

	case *ssa.TypeAssert:
		fr.env[instr] = typeAssert(instr, fr.get(instr.X).(iface))

	case *ssa.MakeClosure:
		var bindings []value
		for _, binding := range instr.Bindings {
			bindings = append(bindings, fr.get(binding))
		}
		fr.env[instr] = &closure{instr.Fn.(*ssa.Function), bindings}

	case *ssa.Phi:
		log.Fatal("unreachable") // phis are processed at block entry

	case *ssa.Select:
		var cases []selCase
		for _, state := range instr.States {
			sc := selCase{send: state.Dir != types.RecvOnly}
			if c := fr.get(state.Chan); c != nil {
				sc.c = c.(*vchan)
			}
			if state.Send != nil {
				sc.v = fr.get(state.Send)
			}
			cases = append(cases, sc)
		}
		chosen, recv, recvOk := fr.i.m.selectOp(cases, instr.Blocking)
		r := tuple{chosen, recvOk}
		for i, st := range instr.States {
			if st.Dir == types.RecvOnly {
				var v value
				if i == chosen && recvOk {
					v = recv
				} else {
					v = zero(st.Chan.Type().Underlying().(*types.Chan).Elem())
				}
				r = append(r, v)
			}
		}
		fr.env[instr] = r

	default:
		panic(fmt.Sprintf("unexpected instruction: %T", instr))
	}

	// if val, ok := instr.(ssa.Value); ok {
	// 	fmt.Println(toString(fr.env[val])) // debugging
	// }

	return kNext
}

// prepareCall determines the function value and argument values for a
// function call in a Call, Go or Defer instruction, performing
// interface method lookup if needed.
func prepareCall(fr *frame, call *ssa.CallCommon) (fn value, args []value) {
	v := fr.get(call.Value)
	if call.Method == nil {
		// Function call.
		fn = v
	} else {
		// Interface method invocation.
		recv := v.(iface)
		if recv.t == nil {
			panic("method invoked on nil interface")
		}
		if f := lookupMethod(fr.i, recv.t, call.Method); f == nil {
			// Unreachable in well-typed programs.
			panic(fmt.Sprintf("method set for dynamic type %v does not contain %s", recv.t, call.Method))
		} else {
			fn = f
		}
		args = append(args, recv.v)
	}
	for _, arg := range call.Args {
		args = append(args, fr.get(arg))
	}
	return
}

// call interprets a call to a function (function, builtin or closure)
// fn with arguments args, returning its result.
// callpos is the position of the callsite.
func call(i *interpreter, caller *frame, callpos token.Pos, fn value, args []value) value {
	switch fn := fn.(type) {
	case *ssa.Function:
		if fn == nil {
			panic("call of nil function") // nil of func type
		}
		return callSSA(i, caller, callpos, fn, args, nil)
	case *closure:
		return callSSA(i, caller, callpos, fn.Fn, args, fn.Env)
	case *ssa.Builtin:
		return callBuiltin(caller, fn, args)
	}
	panic(fmt.Sprintf("cannot call %T", fn))
}

func loc(fset *token.FileSet, pos token.Pos) string {
	if pos == token.NoPos {
		return ""
	}
	return " at " + fset.Position(pos).String()
}

// callSSA interprets a call to function fn with arguments args,
// and lexical environment env, returning its result.
// callpos is the position of the callsite.
func callSSA(i *interpreter, caller *frame, callpos token.Pos, fn *ssa.Function, args []value, env []value) value {
	if i.mode&EnableTracing != 0 {
		fset := fn.Prog.Fset
		fmt.Fprintf(os.Stderr, "Entering %s%s.\n", fn, loc(fset, fn.Pos()))
		suffix := ""
		if caller != nil {
			suffix = ", resuming " + caller.fn.String() + loc(fset, callpos)
		}
		defer fmt.Fprintf(os.Stderr, "Leaving %s%s.\n", fn, suffix)
	}
	fr := &frame{
		i:      i,
		caller: caller, // for panic/recover
		fn:     fn,
	}
	if caller != nil && fn.Name() == "init" && fn.Pkg != nil && fn.Parent() == nil && fn == fn.Pkg.Func("init") {
		return nil // nested package initialisers: the Env runs them in order
	}
	if ext := i.env.intrinsic(fn); ext != nil {
		return ext(fr, args)
	}
	if fn.Blocks == nil {
		if i.m.inInit {
			return zero(fn.Signature.Results())
		}
		i.m.unsupported("no code for function: %s", fn)
	}
	if !i.env.allowed(fn) {
		if i.m.inInit {
			// package initialisers: calls into packages that are not modelled
			// (hive cells, expvar, ...) yield zero values; listed as a stub.
			return zero(fn.Signature.Results())
		}
		i.m.unsupported("call of external function not on the allow-list: %s (from %s)", fn, callerName(caller))
	}

	// generic function body?
	if fn.TypeParams().Len() > 0 && len(fn.TypeArgs()) == 0 {
		panic("interp requires ssa.BuilderMode to include InstantiateGenerics to execute generics")
	}
	i.m.noteFunc(fn)

	fr.env = make(map[ssa.Value]value)
	fr.block = fn.Blocks[0]
	fr.locals = make([]value, len(fn.Locals))
	for i, l := range fn.Locals {
		fr.locals[i] = zero(mustDeref(l.Type()))
		fr.env[l] = &fr.locals[i]
	}
	for i, p := range fn.Params {
		fr.env[p] = args[i]
	}
	for i, fv := range fn.FreeVars {
		fr.env[fv] = env[i]
	}
	for fr.block != nil {
		runFrame(fr)
	}
	// Destroy the locals to avoid accidental use after return.
	for i := range fn.Locals {
		fr.locals[i] = bad{}
	}
	return fr.result
}

func callerName(fr *frame) string {
	if fr == nil || fr.fn == nil {
		return "?"
	}
	return fr.fn.String()
}

func isEnginePanic(p any) bool {
	switch p.(type) {
	case pathAbort, threadKill, wouldBlockPanic:
		return true
	}
	return false
}

// runFrame executes SSA instructions starting at fr.block and
// continuing until a return, a panic, or a recovered panic.
func runFrame(fr *frame) {
	defer func() {
		if fr.block == nil {
			return // normal return
		}
		p := recover()
		if isEnginePanic(p) {
			panic(p) // unwind without running guest defers
		}
		fr.panicking = true
		fr.panic = p
		if fr.i.mode&EnableTracing != 0 {
			fmt.Fprintf(os.Stderr, "Panicking: %T %v.\n", fr.panic, fr.panic)
		}
		fr.runDefers()
		fr.block = fr.fn.Recover
	}()

	m := fr.i.m
	for {
		nonPhis := executePhis(fr)
		m.steps += int64(len(nonPhis))
		if m.steps > m.budget {
			m.abort("budget", "step budget %d exhausted in %s", m.budget, fr.fn)
		}
		for _, instr := range nonPhis {
			if fr.i.mode&EnableTracing != 0 {
				if v, ok := instr.(ssa.Value); ok {
					fmt.Fprintln(os.Stderr, "\t", v.Name(), "=", instr)
				} else {
					fmt.Fprintln(os.Stderr, "\t", instr)
				}
			}
			if visitInstr(fr, instr) == kReturn {
				return
			}
			// Inv: kNext (continue) or kJump (last instr)
		}
	}
}

// executePhis executes the phi-nodes at the start of the current
// block and returns the non-phi instructions.
func executePhis(fr *frame) []ssa.Instruction {
	firstNonPhi := -1
	for i, instr := range fr.block.Instrs {
		if _, ok := instr.(*ssa.Phi); !ok {
			firstNonPhi = i
			break
		}
	}
	// Inv: 0 <= firstNonPhi; every block contains a non-phi.

	nonPhis := fr.block.Instrs[firstNonPhi:]
	if firstNonPhi > 0 {
		phis := fr.block.Instrs[:firstNonPhi]
		predIndex := slices.Index(fr.block.Preds, fr.prevBlock)
		fr.phitemps = fr.phitemps[:0]
		for _, phi := range phis {
			phi := phi.(*ssa.Phi)
			fr.phitemps = append(fr.phitemps, fr.get(phi.Edges[predIndex]))
		}
		for i, phi := range phis {
			fr.env[phi.(*ssa.Phi)] = fr.phitemps[i]
		}
	}
	return nonPhis
}

// doRecover implements the recover() built-in.
func doRecover(caller *frame) value {
	if caller.i.mode&DisableRecover == 0 &&
		caller != nil && !caller.panicking &&
		caller.caller != nil && caller.caller.panicking {
		p := caller.caller.panic
		if isEnginePanic(p) {
			panic(p)
		}
		caller.caller.panicking = false
		caller.caller.panic = nil

		switch p := p.(type) {
		case targetPanic:
			// The target program explicitly called panic().
			return p.v
		case runtime.Error:
			// The interpreter encountered a runtime error.
			return iface{caller.i.runtimeErrorString, p.Error()}
		case string:
			// The interpreter explicitly called panic().
			return iface{caller.i.runtimeErrorString, p}
		default:
			panic(fmt.Sprintf("unexpected panic type %T in target call to recover()", p))
		}
	}
	return iface{}
}

func mustDeref(t types.Type) types.Type {
	if p, ok := t.Underlying().(*types.Pointer); ok {
		return p.Elem()
	}
	panic(fmt.Sprintf("mustDeref: not a pointer: %s", t))
}
