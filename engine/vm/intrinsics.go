package vm

// Intrinsics: functions executed natively by the VM instead of from their Go
// source. Every entry is part of the environment model and is listed in the
// evidence of each check (see DESIGN.md section 3.5).

import (
	"fmt"
	"go/token"
	"go/types"
	"math"
	"math/bits"
	"regexp"
	"strings"
	"unsafe"

	"symgo/smt"
)

var intrinsics = map[string]externalFn{}

func IntrinsicNames() []string {
	var out []string
	for k := range intrinsics {
		out = append(out, k)
	}
	return out
}

var rtypeType = types.NewNamed(types.NewTypeName(0, nil, "rtype", nil), types.NewStruct(nil, nil), nil)
var emptyIface = types.NewInterfaceType(nil, nil)

type hostObj struct{ v any }

func init() {
	reg := func(name string, f externalFn) { intrinsics[name] = f }

	// ---- bytes / bytealg / strings primitives (one term per call) ----
	reg("bytes.Equal", func(fr *frame, a []value) value {
		m := fr.i.m
		return m.val(m.seqEq(a[0].([]value), a[1].([]value)), types.Bool)
	})
	reg("bytes.Compare", func(fr *frame, a []value) value {
		m := fr.i.m
		return m.val(m.seqCompare(a[0].([]value), a[1].([]value)), types.Int)
	})
	reg("internal/bytealg.Compare", intrinsics["bytes.Compare"])
	reg("bytes.HasPrefix", func(fr *frame, a []value) value {
		m := fr.i.m
		return m.val(m.seqHasPrefix(a[0].([]value), a[1].([]value)), types.Bool)
	})
	reg("strings.HasPrefix", func(fr *frame, a []value) value {
		m := fr.i.m
		return m.val(m.seqHasPrefix(strBytes(a[0]), strBytes(a[1])), types.Bool)
	})
	reg("strings.Compare", func(fr *frame, a []value) value {
		m := fr.i.m
		return m.val(m.seqCompare(strBytes(a[0]), strBytes(a[1])), types.Int)
	})
	reg("internal/bytealg.CompareString", intrinsics["strings.Compare"])
	indexByte := func(fr *frame, s []value, c value) value {
		m := fr.i.m
		// first index i with s[i]==c, else -1: built from the end
		r := m.b.Const(64, ^uint64(0))
		ct := m.term(c)
		for i := len(s) - 1; i >= 0; i-- {
			r = m.b.Ite(m.b.Eq(m.term(s[i]), ct), m.b.Const(64, uint64(i)), r)
		}
		return m.val(r, types.Int)
	}
	reg("bytes.IndexByte", func(fr *frame, a []value) value { return indexByte(fr, a[0].([]value), a[1]) })
	reg("internal/bytealg.IndexByte", intrinsics["bytes.IndexByte"])
	reg("strings.IndexByte", func(fr *frame, a []value) value { return indexByte(fr, strBytes(a[0]), a[1]) })
	reg("internal/bytealg.IndexByteString", intrinsics["strings.IndexByte"])
	reg("internal/bytealg.Equal", intrinsics["bytes.Equal"])
	reg("internal/bytealg.MakeNoZero", func(fr *frame, a []value) value {
		n := int(fr.i.m.asInt64(a[0]))
		out := make([]value, n)
		for i := range out {
			out[i] = byte(0)
		}
		return out
	})
	reg("internal/bytealg.Count", func(fr *frame, a []value) value {
		n := 0
		for _, e := range a[0].([]value) {
			if e.(byte) == a[1].(byte) {
				n++
			}
		}
		return n
	})
	reg("internal/bytealg.CountString", func(fr *frame, a []value) value {
		return strings.Count(a[0].(string), string([]byte{a[1].(byte)}))
	})
	reg("internal/bytealg.IndexString", func(fr *frame, a []value) value {
		return strings.Index(a[0].(string), a[1].(string))
	})
	reg("internal/stringslite.Index", intrinsics["internal/bytealg.IndexString"])
	reg("strings.Index", intrinsics["internal/bytealg.IndexString"])
	reg("strings.Repeat", func(fr *frame, a []value) value {
		return strings.Repeat(a[0].(string), int(asInt64(a[1])))
	})
	reg("strings.Join", func(fr *frame, a []value) value {
		var parts []string
		for _, e := range a[0].([]value) {
			parts = append(parts, e.(string))
		}
		return strings.Join(parts, a[1].(string))
	})

	// ---- math ----
	reg("math.Pow", func(fr *frame, a []value) value { return math.Pow(a[0].(float64), a[1].(float64)) })
	reg("math.Float64bits", func(fr *frame, a []value) value { return math.Float64bits(a[0].(float64)) })
	reg("math.Float32bits", func(fr *frame, a []value) value { return math.Float32bits(a[0].(float32)) })
	reg("math.Float64frombits", func(fr *frame, a []value) value { return math.Float64frombits(a[0].(uint64)) })
	reg("math.Floor", func(fr *frame, a []value) value { return math.Floor(a[0].(float64)) })
	reg("math.Min", func(fr *frame, a []value) value { return math.Min(a[0].(float64), a[1].(float64)) })
	reg("math.Max", func(fr *frame, a []value) value { return math.Max(a[0].(float64), a[1].(float64)) })
	reg("math.Inf", func(fr *frame, a []value) value { return math.Inf(int(asInt64(a[0]))) })
	reg("math.IsInf", func(fr *frame, a []value) value { return math.IsInf(a[0].(float64), int(asInt64(a[1]))) })
	reg("math.IsNaN", func(fr *frame, a []value) value { return math.IsNaN(a[0].(float64)) })

	// ---- math/bits: compact terms instead of 256-entry table reads ----
	lenN := func(w int, k types.BasicKind) externalFn {
		return func(fr *frame, a []value) value {
			m := fr.i.m
			x, ok := a[0].(sym)
			if !ok {
				u := uint64(asInt64(a[0]))
				if w < 64 {
					u &= (uint64(1) << uint(w)) - 1
				}
				return bits.Len64(u)
			}
			// Len(x) = number of bits needed: nested ite over thresholds
			r := m.b.Const(64, 0)
			for i := 0; i < w; i++ {
				th := m.b.Const(w, uint64(1)<<uint(i))
				r = m.b.Ite(m.b.Bin(smt.OpUle, th, x.t), m.b.Const(64, uint64(i+1)), r)
			}
			return m.val(r, types.Int)
		}
	}
	reg("math/bits.Len8", lenN(8, types.Uint8))
	reg("math/bits.Len16", lenN(16, types.Uint16))
	reg("math/bits.Len32", lenN(32, types.Uint32))
	reg("math/bits.Len64", lenN(64, types.Uint64))
	reg("math/bits.Len", lenN(64, types.Uint))
	lz := func(w int, name string) {
		reg("math/bits.LeadingZeros"+name, func(fr *frame, a []value) value {
			m := fr.i.m
			l := intrinsics["math/bits.Len"+name](fr, a)
			return binop(m, token.SUB, nil, w, l)
		})
	}
	lz(8, "8")
	lz(16, "16")
	lz(32, "32")
	lz(64, "64")

	// ---- runtime / os ----
	nop := func(fr *frame, a []value) value { return nil }
	reg("runtime.SetFinalizer", nop)
	reg("runtime.KeepAlive", nop)
	reg("runtime.Gosched", func(fr *frame, a []value) value { fr.i.m.yield(); return nil })
	reg("runtime.GC", nop)
	reg("os.Getenv", func(fr *frame, a []value) value { return "" })
	reg("runtime.AddCleanup", func(fr *frame, a []value) value { return zero(fr.fn.Signature.Results().At(0).Type()) })

	// ---- regexp (host objects; arguments must be concrete) ----
	reg("regexp.MustCompile", func(fr *frame, a []value) value {
		var v value = hostObj{regexp.MustCompile(a[0].(string))}
		return &v
	})
	reg("(*regexp.Regexp).MatchString", func(fr *frame, a []value) value {
		s, ok := a[1].(string)
		if !ok {
			fr.i.m.unsupported("regexp match on symbolic string")
		}
		return (*a[0].(*value)).(hostObj).v.(*regexp.Regexp).MatchString(s)
	})

	// ---- errors ----
	reg("errors.Is", func(fr *frame, a []value) value { return errorsIs(fr, a[0].(iface), a[1].(iface)) })

	// ---- reflect (minimal) ----
	reg("reflect.TypeFor", func(fr *frame, a []value) value {
		return iface{t: rtypeType, v: rtype{fr.fn.TypeArgs()[0]}}
	})
	reg("reflect.DeepEqual", func(fr *frame, a []value) value {
		m := fr.i.m
		x, y := a[0].(iface), a[1].(iface)
		if x.t == nil || y.t == nil {
			return x.t == nil && y.t == nil
		}
		if !types.Identical(x.t, y.t) {
			return false
		}
		if !types.Comparable(x.t) || hasPointers(x.t) {
			return m.val(m.deepEqTerm(x.t, x.v, y.v, 0), types.Bool)
		}
		return m.val(m.eqTerm(x.t, x.v, y.v), types.Bool)
	})
	reg("reflect.TypeOf", func(fr *frame, a []value) value {
		return iface{t: rtypeType, v: rtype{a[0].(iface).t}}
	})

	registerSyncIntrinsics(reg)
	registerTimeIntrinsics(reg)
	registerFmtIntrinsics(reg)
	registerVndIntrinsics(reg)
	registerHostIntrinsics(reg)
}

func errorsIs(fr *frame, err, target iface) value {
	i := fr.i
	for depth := 0; depth < 50; depth++ {
		if err.t == nil {
			return target.t == nil
		}
		if sameType(err.t, target.t) && isComparable(err.t) && equals(err.t, err.v, target.v) {
			return true
		}
		// Is(target) method?
		if f := lookupMethodByName(i, err.t, "Is"); f != nil {
			if r, ok := call(i, fr, 0, f, []value{err.v, target}).(bool); ok && r {
				return true
			}
		}
		f := lookupMethodByName(i, err.t, "Unwrap")
		if f == nil {
			return false
		}
		r := call(i, fr, 0, f, []value{err.v})
		switch r := r.(type) {
		case iface:
			err = r
		case []value:
			for _, e := range r {
				if errorsIs(fr, e.(iface), target).(bool) {
					return true
				}
			}
			return false
		default:
			return false
		}
	}
	return false
}

func isComparable(t types.Type) bool { return types.Comparable(t) }

func lookupMethodByName(i *interpreter, t types.Type, name string) *ssaFunction {
	ms := i.prog.MethodSets.MethodSet(t)
	for j := 0; j < ms.Len(); j++ {
		sel := ms.At(j)
		if sel.Obj().Name() == name {
			return i.prog.MethodValue(sel)
		}
	}
	return nil
}

// ---------------------------------------------------------------------
// sync, sync/atomic

func registerSyncIntrinsics(reg func(string, externalFn)) {
	// atomic primitives: plain loads/stores (the VM runs one thread at a time)
	ld := func(fr *frame, a []value) value {
		if fr.i.m.sc.preempt >= 2 {
			fr.i.m.yield()
		}
		return *a[0].(*value)
	}
	st := func(fr *frame, a []value) value {
		if fr.i.m.sc.preempt >= 2 {
			fr.i.m.yield()
		}
		fr.i.m.observe(fr, "before-atomic-store")
		*a[0].(*value) = a[1]
		fr.i.m.observe(fr, "after-atomic-store")
		return nil
	}
	swap := func(fr *frame, a []value) value {
		old := *a[0].(*value)
		*a[0].(*value) = a[1]
		fr.i.m.observe(fr, "after-atomic-swap")
		return old
	}
	for _, T := range []string{"Int32", "Int64", "Uint32", "Uint64", "Uintptr", "Pointer"} {
		T := T
		reg("sync/atomic.Load"+T, ld)
		reg("sync/atomic.Store"+T, st)
		reg("sync/atomic.Swap"+T, swap)
		reg("sync/atomic.CompareAndSwap"+T, func(fr *frame, a []value) value {
			p := a[0].(*value)
			m := fr.i.m
			if isSym(*p) || isSym(a[1]) {
				if m.branch(m.b.Eq(m.term(*p), m.term(a[1]))) {
					*p = a[2]
					return true
				}
				return false
			}
			if *p == a[1] {
				*p = a[2]
				return true
			}
			return false
		})
		if T != "Pointer" {
			reg("sync/atomic.Add"+T, func(fr *frame, a []value) value {
				p := a[0].(*value)
				*p = binop(fr.i.m, tokenADD, nil, *p, a[1])
				return *p
			})
			reg("sync/atomic.And"+T, func(fr *frame, a []value) value {
				p := a[0].(*value)
				old := *p
				*p = binop(fr.i.m, tokenAND, nil, *p, a[1])
				return old
			})
			reg("sync/atomic.Or"+T, func(fr *frame, a []value) value {
				p := a[0].(*value)
				old := *p
				*p = binop(fr.i.m, tokenOR, nil, *p, a[1])
				return old
			})
		}
	}
	// atomic.Value: struct{ v any }
	reg("(*sync/atomic.Value).Load", func(fr *frame, a []value) value {
		return (*a[0].(*value)).(structure)[0]
	})
	reg("(*sync/atomic.Value).Store", func(fr *frame, a []value) value {
		(*a[0].(*value)).(structure)[0] = a[1]
		return nil
	})
	reg("(*sync/atomic.Value).Swap", func(fr *frame, a []value) value {
		s := (*a[0].(*value)).(structure)
		old := s[0]
		s[0] = a[1]
		return old
	})
	reg("(*sync/atomic.Value).CompareAndSwap", func(fr *frame, a []value) value {
		s := (*a[0].(*value)).(structure)
		if s[0].(iface).eq(emptyIface, a[1]) {
			s[0] = a[2]
			return true
		}
		return false
	})

	// mutexes
	reg("(*sync.Mutex).Lock", func(fr *frame, a []value) value {
		fr.i.m.lock(a[0].(*value))
		fr.i.m.observe(fr, "after-lock")
		return nil
	})
	reg("(*sync.Mutex).Unlock", func(fr *frame, a []value) value {
		fr.i.m.observe(fr, "before-unlock")
		fr.i.m.unlock(a[0].(*value))
		fr.i.m.observe(fr, "after-unlock")
		return nil
	})
	reg("(*sync.Mutex).TryLock", func(fr *frame, a []value) value { return fr.i.m.tryLock(a[0].(*value)) })
	reg("(*sync.RWMutex).Lock", intrinsics["(*sync.Mutex).Lock"])
	reg("(*sync.RWMutex).Unlock", intrinsics["(*sync.Mutex).Unlock"])
	reg("(*sync.RWMutex).RLock", intrinsics["(*sync.Mutex).Lock"])
	reg("(*sync.RWMutex).RUnlock", intrinsics["(*sync.Mutex).Unlock"])

	// sync.Pool: LIFO reuse (the bug-revealing case) or New()
	reg("(*sync.Pool).Get", func(fr *frame, a []value) value {
		m := fr.i.m
		p := a[0].(*value)
		lst := m.pools[p]
		if len(lst) > 0 {
			v := lst[len(lst)-1]
			m.pools[p] = lst[:len(lst)-1]
			return v
		}
		st := (*p).(structure)
		newFn := st[len(st)-1] // field New is the last field of sync.Pool
		switch f := newFn.(type) {
		case *ssaFunction:
			if f == nil {
				return iface{}
			}
		}
		return call(fr.i, fr, 0, newFn, nil)
	})
	reg("(*sync.Pool).Put", func(fr *frame, a []value) value {
		m := fr.i.m
		if m.pools == nil {
			m.pools = map[*value][]value{}
		}
		p := a[0].(*value)
		m.pools[p] = append(m.pools[p], a[1])
		return nil
	})

	// sync.WaitGroup
	reg("(*sync.WaitGroup).Add", func(fr *frame, a []value) value {
		m := fr.i.m
		if m.wgs == nil {
			m.wgs = map[*value]*int{}
		}
		p := a[0].(*value)
		if m.wgs[p] == nil {
			m.wgs[p] = new(int)
		}
		*m.wgs[p] += int(asInt64(a[1]))
		if *m.wgs[p] < 0 {
			panic(targetPanic{iface{nil, "sync: negative WaitGroup counter"}})
		}
		return nil
	})
	reg("(*sync.WaitGroup).Done", func(fr *frame, a []value) value {
		return intrinsics["(*sync.WaitGroup).Add"](fr, []value{a[0], -1})
	})
	reg("(*sync.WaitGroup).Wait", func(fr *frame, a []value) value {
		m := fr.i.m
		p := a[0].(*value)
		if m.wgs == nil || m.wgs[p] == nil {
			return nil
		}
		c := m.wgs[p]
		m.block("WaitGroup.Wait", func() bool { return *c == 0 })
		return nil
	})

	// sync.Map backed by an omap keyed by interface values
	smap := func(fr *frame, p *value) *omap {
		m := fr.i.m
		if m.syncMaps == nil {
			m.syncMaps = map[*value]*omap{}
		}
		om := m.syncMaps[p]
		if om == nil {
			om = makeMap(emptyIface, 0).(*omap)
			m.syncMaps[p] = om
		}
		return om
	}
	reg("(*sync.Map).Load", func(fr *frame, a []value) value {
		v, ok := smap(fr, a[0].(*value)).get(fr.i.m, a[1])
		if !ok {
			return tuple{iface{}, false}
		}
		return tuple{v, true}
	})
	reg("(*sync.Map).Store", func(fr *frame, a []value) value {
		smap(fr, a[0].(*value)).set(fr.i.m, a[1], a[2])
		return nil
	})
	reg("(*sync.Map).LoadOrStore", func(fr *frame, a []value) value {
		om := smap(fr, a[0].(*value))
		if v, ok := om.get(fr.i.m, a[1]); ok {
			return tuple{v, true}
		}
		om.set(fr.i.m, a[1], a[2])
		return tuple{a[2], false}
	})
	reg("(*sync.Map).Delete", func(fr *frame, a []value) value {
		smap(fr, a[0].(*value)).delete(fr.i.m, a[1])
		return nil
	})
	reg("(*sync.Map).Range", func(fr *frame, a []value) value {
		om := smap(fr, a[0].(*value))
		it := om.iter(fr.i.m)
		for {
			t := it.next()
			if !t[0].(bool) {
				break
			}
			if r := call(fr.i, fr, 0, a[1], []value{t[1], t[2]}); !r.(bool) {
				break
			}
		}
		return nil
	})
}

// ---------------------------------------------------------------------
// vnd: the harness vocabulary

const vndPkg = ModulePath + "/internal/vnd."

func registerVndIntrinsics(reg func(string, externalFn)) {
	scalar := func(kind string, k types.BasicKind) externalFn {
		return func(fr *frame, a []value) value {
			m := fr.i.m
			tag := a[0].(string)
			if m.concrete {
				return hostValue(k, m.concreteInput(tag, kind, 0, 0))
			}
			return m.val(m.newInput(tag, kind, kindWidth(k)), k)
		}
	}
	reg(vndPkg+"Byte", scalar("byte", types.Uint8))
	reg(vndPkg+"Bool", scalar("bool", types.Bool))
	reg(vndPkg+"Uint64", scalar("u64", types.Uint64))
	reg(vndPkg+"Uint16", scalar("u16", types.Uint16))
	reg(vndPkg+"Uint32", scalar("u32", types.Uint32))
	intRange := func(m *machine, tag string, lo, hi int) int {
		if hi < lo {
			m.abort("assume", "empty IntRange %s", tag)
		}
		if m.concrete {
			return int(m.concreteInput(tag, "int", uint64(lo), uint64(hi)))
		}
		k := m.choose(hi-lo+1, "IntRange "+tag)
		m.recordChoice(tag, "int", uint64(lo+k))
		return lo + k
	}
	reg(vndPkg+"IntRange", func(fr *frame, a []value) value {
		return intRange(fr.i.m, a[0].(string), int(asInt64(a[1])), int(asInt64(a[2])))
	})
	bytesN := func(m *machine, tag string, n int) []value {
		out := make([]value, n)
		for i := range out {
			t := fmt.Sprintf("%s[%d]", tag, i)
			if m.concrete {
				out[i] = byte(m.concreteInput(t, "byte", 0, 0))
			} else {
				out[i] = m.val(m.newInput(t, "byte", 8), types.Uint8)
			}
		}
		return out
	}
	reg(vndPkg+"Bytes", func(fr *frame, a []value) value {
		m := fr.i.m
		tag := a[0].(string)
		n := intRange(m, tag+".len", 0, int(asInt64(a[1])))
		return bytesN(m, tag, n)
	})
	reg(vndPkg+"BytesN", func(fr *frame, a []value) value {
		return bytesN(fr.i.m, a[0].(string), int(asInt64(a[1])))
	})
	reg(vndPkg+"String", func(fr *frame, a []value) value {
		m := fr.i.m
		tag := a[0].(string)
		n := intRange(m, tag+".len", 0, int(asInt64(a[1])))
		return mkString(bytesN(m, tag, n))
	})
	reg(vndPkg+"Assume", func(fr *frame, a []value) value {
		m := fr.i.m
		switch c := a[0].(type) {
		case bool:
			if !c {
				m.abort("assume", "assumption false")
			}
		case sym:
			if !m.feasible(c.t) {
				m.abort("assume", "assumption infeasible")
			}
			m.addPC(c.t)
		}
		return nil
	})
	reg(vndPkg+"Assert", func(fr *frame, a []value) value {
		fr.i.m.assert(a[0], a[1].(string), fr)
		return nil
	})
	reg(vndPkg+"Cover", func(fr *frame, a []value) value {
		fr.i.m.covers[a[0].(string)] = true
		return nil
	})
	reg(vndPkg+"Known", func(fr *frame, a []value) value {
		// Known(id, c): true iff finding id is open and c holds; forks on c.
		m := fr.i.m
		id := a[0].(string)
		if !m.openKnown[id] {
			return false
		}
		var r bool
		switch c := a[1].(type) {
		case bool:
			r = c
		case sym:
			r = m.branch(c.t)
		}
		if r {
			m.known[id] = true
		}
		return r
	})
	reg(vndPkg+"KnownOpen", func(fr *frame, a []value) value {
		return fr.i.m.openKnown[a[0].(string)]
	})
	b2 := func(f func(m *machine, x, y *smt.Term) *smt.Term) externalFn {
		return func(fr *frame, a []value) value {
			m := fr.i.m
			return m.val(f(m, m.term(a[0]), m.term(a[1])), types.Bool)
		}
	}
	reg(vndPkg+"And", b2(func(m *machine, x, y *smt.Term) *smt.Term { return m.b.And(x, y) }))
	reg(vndPkg+"Or", b2(func(m *machine, x, y *smt.Term) *smt.Term { return m.b.Or(x, y) }))
	reg(vndPkg+"Implies", b2(func(m *machine, x, y *smt.Term) *smt.Term { return m.b.Or(m.b.Not(x), y) }))
	reg(vndPkg+"Iff", b2(func(m *machine, x, y *smt.Term) *smt.Term { return m.b.Eq(x, y) }))
	reg(vndPkg+"Not", func(fr *frame, a []value) value {
		m := fr.i.m
		return m.val(m.b.Not(m.term(a[0])), types.Bool)
	})
	ite := func(k types.BasicKind) externalFn {
		return func(fr *frame, a []value) value {
			m := fr.i.m
			return m.val(m.b.Ite(m.term(a[0]), m.term(a[1]), m.term(a[2])), k)
		}
	}
	reg(vndPkg+"IteInt", ite(types.Int))
	reg(vndPkg+"IteU64", ite(types.Uint64))
	reg(vndPkg+"IteBool", ite(types.Bool))
	reg(vndPkg+"IteByte", ite(types.Uint8))
	reg(vndPkg+"Param", func(fr *frame, a []value) value {
		if v, ok := fr.i.env.Params[a[0].(string)]; ok {
			return v
		}
		return int(asInt64(a[1]))
	})
	reg(vndPkg+"InVM", func(fr *frame, a []value) value { return true })
	reg(vndPkg+"Symbolic", func(fr *frame, a []value) value { return !fr.i.m.concrete })
	reg(vndPkg+"Observe", func(fr *frame, a []value) value {
		m := fr.i.m
		if !m.concrete {
			return nil
		}
		m.mix(hashStr(a[0].(string)))
		for _, v := range a[1].([]value) {
			m.mix(v.(uint64))
		}
		return nil
	})
	reg(vndPkg+"ObserveBytes", func(fr *frame, a []value) value {
		m := fr.i.m
		if !m.concrete {
			return nil
		}
		m.mix(hashStr(a[0].(string)))
		bs := a[1].([]value)
		m.mix(uint64(len(bs)))
		for _, v := range bs {
			m.mix(uint64(v.(byte)))
		}
		return nil
	})
	reg(vndPkg+"Concretize", func(fr *frame, a []value) value {
		// Concretize(x uint64) uint64: fork over feasible values
		m := fr.i.m
		if s, ok := a[0].(sym); ok {
			return hostValue(s.k, m.concretise(s.t, "vnd.Concretize"))
		}
		return a[0]
	})
	// ---- stage 2/3 ----
	reg(vndPkg+"Actor", func(fr *frame, a []value) value {
		fr.i.m.sc.actor = int(asInt64(a[0]))
		return nil
	})
	reg(vndPkg+"WouldBlock", func(fr *frame, a []value) (res value) {
		m := fr.i.m
		// snapshot mutex states so that a partial acquisition can be undone
		type snap struct {
			mu     *vmutex
			locked bool
			owner  *thread
			ownerA int
		}
		var snaps []snap
		for _, mu := range m.sc.mutexes {
			snaps = append(snaps, snap{mu, mu.locked, mu.owner, mu.ownerA})
		}
		heldLen := len(m.sc.cur.held)
		defer func() {
			if r := recover(); r != nil {
				if _, ok := r.(wouldBlockPanic); !ok {
					panic(r)
				}
				known := map[*vmutex]bool{}
				for _, s := range snaps {
					s.mu.locked, s.mu.owner, s.mu.ownerA = s.locked, s.owner, s.ownerA
					known[s.mu] = true
				}
				for _, mu := range m.sc.mutexes {
					if !known[mu] { // first locked inside f: did not exist before
						mu.locked, mu.owner, mu.ownerA = false, nil, 0
					}
				}
				m.sc.cur.held = m.sc.cur.held[:heldLen]
				res = true
			}
		}()
		call(fr.i, fr, 0, a[0], nil)
		return false
	})
	reg(vndPkg+"SetSyncObserver", func(fr *frame, a []value) value {
		m := fr.i.m
		switch f := a[0].(type) {
		case *ssaFunction:
			if f == nil {
				m.observer = nil
				return nil
			}
		}
		m.observer = a[0]
		return nil
	})
	reg(vndPkg+"ObserverCalls", func(fr *frame, a []value) value { return fr.i.m.observerCalls })
	reg(vndPkg+"Go", func(fr *frame, a []value) value {
		i := fr.i
		f := a[0]
		i.m.spawn("vnd.Go", func() { call(i, nil, 0, f, nil) })
		return nil
	})
	reg(vndPkg+"Yield", func(fr *frame, a []value) value { fr.i.m.yield(); return nil })
	reg(vndPkg+"Sleep", func(fr *frame, a []value) value {
		m := fr.i.m
		d := asInt64(a[0])
		m.sleep(d)
		return nil
	})
	reg(vndPkg+"Advance", func(fr *frame, a []value) value {
		fr.i.m.advance(asInt64(a[0]))
		return nil
	})
	reg(vndPkg+"Now", func(fr *frame, a []value) value { return fr.i.m.vclock })
	reg(vndPkg+"Settle", func(fr *frame, a []value) value {
		// run all other threads until they block or finish
		fr.i.m.settle()
		return nil
	})
	reg(vndPkg+"LockStats", func(fr *frame, a []value) value {
		mon := fr.i.m.mon
		cyc := 0
		if c := mon.lockOrderCycle(); c != nil {
			cyc = 1
		}
		return tuple{mon.acquisitions, cyc, len(mon.blockedHolding)}
	})
	reg(vndPkg+"HeldLocks", func(fr *frame, a []value) value {
		n := 0
		for _, mu := range fr.i.m.sc.mutexes {
			if mu.locked {
				n++
			}
		}
		return n
	})
}

func hashStr(s string) uint64 {
	h := uint64(1469598103934665603)
	for i := 0; i < len(s); i++ {
		h ^= uint64(s[i])
		h *= 1099511628211
	}
	return h
}

func (m *machine) mix(v uint64) {
	m.digest ^= v + 0x9e3779b97f4a7c15 + (m.digest << 6) + (m.digest >> 2)
}

var _ = unsafe.Pointer(nil)

// deepEqTerm: reflect.DeepEqual(x, y) at static type t as a Bool term
// (pointers: identical or pointees deeply equal; slices: both nil or both
// non-nil with equal lengths and deeply equal elements; structs and arrays
// field-/element-wise; interfaces: same dynamic type and deeply equal values;
// funcs: both nil). Maps and cyclic values (depth > 12) are not modelled.
func (m *machine) deepEqTerm(t types.Type, x, y value, depth int) *smt.Term {
	b := m.b
	if depth > 12 {
		m.unsupported("reflect.DeepEqual: value nested deeper than 12 levels (cyclic?) at %s", t)
	}
	switch u := t.Underlying().(type) {
	case *types.Pointer:
		xp, yp := x.(*value), y.(*value)
		if xp == nil || yp == nil {
			return b.Bool(xp == nil && yp == nil)
		}
		if xp == yp {
			return b.True
		}
		return m.deepEqTerm(u.Elem(), *xp, *yp, depth+1)
	case *types.Slice:
		xs, _ := x.([]value)
		ys, _ := y.([]value)
		if (xs == nil) != (ys == nil) || len(xs) != len(ys) {
			return b.False
		}
		r := b.True
		for i := range xs {
			r = b.And(r, m.deepEqTerm(u.Elem(), xs[i], ys[i], depth+1))
			if r == b.False {
				return r
			}
		}
		return r
	case *types.Struct:
		xs, ys := x.(structure), y.(structure)
		r := b.True
		for i := 0; i < u.NumFields(); i++ {
			r = b.And(r, m.deepEqTerm(u.Field(i).Type(), xs[i], ys[i], depth+1))
			if r == b.False {
				return r
			}
		}
		return r
	case *types.Array:
		xa, ya := x.(array), y.(array)
		r := b.True
		for i := range xa {
			r = b.And(r, m.deepEqTerm(u.Elem(), xa[i], ya[i], depth+1))
			if r == b.False {
				return r
			}
		}
		return r
	case *types.Interface:
		xi, yi := x.(iface), y.(iface)
		if xi.t == nil || yi.t == nil {
			return b.Bool(xi.t == nil && yi.t == nil)
		}
		if !types.Identical(xi.t, yi.t) {
			return b.False
		}
		return m.deepEqTerm(xi.t, xi.v, yi.v, depth+1)
	case *types.Signature:
		isNil := func(v value) bool {
			switch f := v.(type) {
			case *ssaFunction:
				return f == nil
			case nil:
				return true
			}
			return false
		}
		return b.Bool(isNil(x) && isNil(y))
	case *types.Map:
		m.unsupported("reflect.DeepEqual on map type %s", t)
	case *types.Chan:
		return b.Bool(equals(t, x, y))
	}
	return m.eqTerm(t, x, y)
}

// hasPointers: DeepEqual differs from == for pointers, interfaces, etc.
func hasPointers(t types.Type) bool {
	switch u := t.Underlying().(type) {
	case *types.Basic:
		return u.Kind() == types.UnsafePointer
	case *types.Struct:
		for i := 0; i < u.NumFields(); i++ {
			if hasPointers(u.Field(i).Type()) {
				return true
			}
		}
		return false
	case *types.Array:
		return hasPointers(u.Elem())
	}
	return true
}

// observe calls the harness' sync observer (if set) at a synchronisation
// operation of the main thread: "another goroutine takes a snapshot here".
func (m *machine) observe(fr *frame, point string) {
	if m.observer == nil || m.inObserver || m.sc.cur.id != 0 {
		return
	}
	m.inObserver = true
	m.observerCalls++
	defer func() { m.inObserver = false }()
	call(fr.i, fr, 0, m.observer, []value{point})
}
