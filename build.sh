#!/bin/sh
# builds the engine (offline)
cd /verif/engine && GOTOOLCHAIN=local GOFLAGS=-mod=mod GOPROXY=off go1.26.8 build -o ../bin/verif ./cmd/verif
