#!/usr/bin/env python3
"""Regenerates /verif/MANIFEST.json from the table below (claimed checks) and
properties.jsonl (everything else is listed under not_applicable with a reason)."""
import json, os
V = '/verif'
props = [json.loads(l) for l in open(f'{V}/properties.jsonl')]
TECH = "bounded symbolic execution of go/ssa of the real code + SMT (z3): per-path unsat queries PC && !assertion; counterexamples replayed natively"
NOTE = ("Trusted base: go/packages+go/ssa (x/tools v0.50.0), the symgo VM and its intrinsics (cross-checked on every run by VM-vs-native "
        "differential runs on seeded concrete tapes and by native `go test` replay of every counterexample), z3 4.8.12 (thorough tier: assertion "
        "queries cross-checked with z3 5.1), the harness oracles in /verif/harness. Claims hold only within the stated bounds (evidence coverage.runs[].params).")
claimed = {}
na_reason = {}
exec(open(f'{V}/tools/claims.py').read())
checks = []
for p in props:
    i = p['id']
    if i in claimed:
        c = claimed[i]
        checks.append({
            "property_id": i,
            "quick_cmd": f"./bin/verif check {i} --tier quick",
            "thorough_cmd": f"./bin/verif check {i} --tier thorough",
            "evidence_file": f"evidence/{i}.json",
            "replay_cmd_template": "./bin/verif replay {path}",
            "engine": "symgo",
            "level_claimed": {"category": "other", "text": c['text'], "design_ref": c.get('ref', 'DESIGN.md section 5 / section 9')},
            "level_note": NOTE + " " + c.get('note', ''),
            "technique": TECH,
        })
na = [{"property_id": p['id'], "reason": na_reason.get(p['id'], "check not yet built (engine stage not reached); see DESIGN.md section 9")}
      for p in props if p['id'] not in claimed]
m = {
    "version": 1,
    "setup_cmd": "cd /verif/engine && GOTOOLCHAIN=local GOFLAGS=-mod=mod GOPROXY=off go1.26.8 build -o ../bin/verif ./cmd/verif",
    "hooks": {"guard": "verif", "enable": "checks load /repo with go/packages BuildFlags -tags=verif; native replays run `go test -tags verif -overlay ...`",
              "baseline_off_cmd": "cd /repo && go test -vet=off -count=1 -timeout 25m ./...",
              "source_commits": HOOK_COMMITS, "add_only": True},
    "engines": [{"name": "symgo", "path": "/verif/engine", "serves_properties": sorted(claimed),
                 "kind_free_text": "bounded symbolic execution of go/ssa (own VM forked from x/tools ssa/interp) with SMT (z3 -in, push/pop), stateless path exploration on 16 workers, native replay via go test -overlay"}],
    "checks": checks,
    "notes": "Harness sources live in /verif/harness and are injected by overlay (never written into /repo). Known findings: /verif/known_findings.json.",
    "not_applicable": na,
}
json.dump(m, open(f'{V}/MANIFEST.json', 'w'), indent=1)
print("claimed:", sorted(claimed), "n/a:", [x['property_id'] for x in na])
