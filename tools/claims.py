HOOK_COMMITS = []
claimed = {
 "C18": {"text": "For all (secondary, primary) byte strings up to L=2 bytes each (every byte value symbolic) the non-unique composite key is order-preserving, injective and splittable; integer/bool/string encoders injective and order-preserving for all values (full 64/32/16-bit width); LPM keys round-trip masked for data <= 3 bytes and every prefix length. Decided per path by z3 (unsat of PC && !assertion); bounded, not a proof.",
         "note": "Outside: keys longer than the bound, encoded primaries >= 256 bytes, netip encoders."},
}
