#!/bin/bash
# usage: seed_eval.sh <seed-name> <property-id> <worktree> <outdir> <demo-pkg-dir> [check-ids...]
# Confirms a seeded change in its scratch worktree (suite passes with it, demo
# fails with it and passes without), stores it under /verif/seeded/<seed-name>/,
# then applies it to /repo, runs the given checks (default: the property's) and
# reverts /repo.
set -u
name=$1; prop=$2; wt=$3; out=$4; pkg=$5; shift 5
checks=${*:-$prop}
export GOFLAGS=-mod=mod GOPROXY=off
dst=/verif/seeded/$name
mkdir -p $dst
cp $out/patch.diff $dst/patch.diff
cp $out/demo_test.go $dst/demo_test.go.txt
cp $out/meta.txt $dst/agent_meta.txt 2>/dev/null
log=$dst/eval.log; : > $log; rm -f $dst/results.tsv
cd $wt || exit 2
git checkout -q -- . ; rm -f $(git ls-files --others --exclude-standard | grep zz_seed) 2>/dev/null
git apply $dst/patch.diff || { echo "patch does not apply" | tee -a $log; exit 2; }
echo "== suite with change" >> $log
go build ./... >> $log 2>&1 && go test -count=1 ./... >> $log 2>&1; suite=$?
for try in 1 2; do if [ $suite -ne 0 ]; then go test -count=1 ./... >> $log 2>&1; suite=$?; fi; done
cp $dst/demo_test.go.txt $wt/$pkg/zz_seed_demo_test.go
echo "== demo with change" >> $log
go test -count=1 -run 'Seed' ./$pkg >> $log 2>&1; demo_with=$?
git apply -R $dst/patch.diff
echo "== demo without change" >> $log
go test -count=1 -run 'Seed' ./$pkg >> $log 2>&1; demo_without=$?
rm -f $wt/$pkg/zz_seed_demo_test.go
echo "suite_with_change_exit=$suite demo_with_change_exit=$demo_with demo_without_change_exit=$demo_without" | tee -a $log
confirmed=false
if [ $suite -eq 0 ] && [ $demo_with -ne 0 ] && [ $demo_without -eq 0 ]; then confirmed=true; fi
# run the checks against /repo with the change applied
cd /verif
results=""
if $confirmed && [ -n "${SEED_VIA_WORKTREE:-}" ]; then
  # /repo is busy (a long check batch is running against it): run the checks
  # against the scratch worktree with the change applied instead
  git -C $wt apply $dst/patch.diff || { echo "patch does not re-apply to worktree" | tee -a $log; exit 2; }
  mkdir -p /tmp/seed_evidence
  for c in $checks; do
    VERIF_REPO=$wt VERIF_EVIDENCE_DIR=/tmp/seed_evidence ./bin/verif check $c --tier ${SEED_TIER:-quick} > $dst/check_$c.log 2>&1; ec=$?
    v=$(grep -c '^VIOLATION' $dst/check_$c.log)
    printf "%s\t%s\t%s\n" "$c" "$ec" "$v" >> $dst/results.tsv
    echo "check $c exit=$ec violations=$v (VERIF_REPO=$wt)" | tee -a $log
  done
  git -C $wt apply -R $dst/patch.diff
elif $confirmed; then
  git -C /repo apply $dst/patch.diff || { echo "patch does not apply to /repo" | tee -a $log; exit 2; }
  for c in $checks; do
    ./bin/verif check $c --tier ${SEED_TIER:-quick} > $dst/check_$c.log 2>&1; ec=$?
    v=$(grep -c '^VIOLATION' $dst/check_$c.log)
    printf "%s\t%s\t%s\n" "$c" "$ec" "$v" >> $dst/results.tsv
    echo "check $c exit=$ec violations=$v" | tee -a $log
  done
  git -C /repo checkout -- .
  # evidence files were rewritten by the seeded run: restore the committed ones
  git -C /verif checkout -- evidence 2>/dev/null
fi
python3 - "$name" "$prop" "$confirmed" "$suite" "$demo_with" "$demo_without" "$pkg" "$wt" <<'PY'
import json,sys,os
name,prop,confirmed,suite,dw,dwo,pkg,wt=sys.argv[1:9]
dst="/verif/seeded/"+name
res=[]
if os.path.exists(dst+"/results.tsv"):
    for l in open(dst+"/results.tsv"):
        c,ec,v=l.rstrip("\n").split("\t")
        first=""
        lg=dst+"/check_%s.log"%c
        if os.path.exists(lg):
            ls=open(lg).read().splitlines()
            for i,x in enumerate(ls):
                if x.startswith("VIOLATION"):
                    first=x+" | "+(ls[i+1].strip() if i+1<len(ls) else "")
                    break
        res.append({"check":c,"exit":int(ec),"violation_lines":int(v),"first_violation":first[:300]})
meta={"seed":name,"breaks_property":prop,"confirmed":confirmed=="true",
 "suite_with_change_exit":int(suite),"demo_with_change_exit":int(dw),"demo_without_change_exit":int(dwo),
 "demo_package_dir":pkg,
 "what_it_needs":open(dst+"/agent_meta.txt").read()[:2000] if os.path.exists(dst+"/agent_meta.txt") else "",
 "ran":"tools/seed_eval.sh %s %s (scratch worktree %s): go build + go test ./... with the change; demo test with and without the change; then git -C /repo apply patch.diff; ./bin/verif check <ids>; git -C /repo checkout -- ."%(name,prop,wt),
 "check_results":res}
json.dump(meta,open(dst+"/meta.json","w"),indent=1)
print(name,"confirmed" if meta["confirmed"] else "NOT-CONFIRMED",[(r["check"],r["exit"],r["violation_lines"]) for r in res])
PY
