#!/bin/bash
# usage: seed_wave.sh <letter> [ids...]   evaluates /tmp/seed/<ID><letter>-out against the quick checks
# (via the scratch worktree, so /repo stays free), one after the other.
l=$1; shift
ids=${*:-$(ls -d /tmp/seed/C??${l}-out | sed "s#/tmp/seed/##;s#${l}-out##")}
for id in $ids; do
  out=/tmp/seed/${id}${l}-out; wt=/tmp/seed/${id}${l}
  [ -f $out/meta.txt ] && [ -f $out/patch.diff ] && [ -f $out/demo_test.go ] || { echo "$id: incomplete"; continue; }
  pkg=$(head -1 $out/meta.txt | sed -n 's/^pkg=//p'); pkg=${pkg:-.}
  extra=$(cat $out/EXTRA_CHECKS 2>/dev/null)
  SEED_VIA_WORKTREE=1 /verif/tools/seed_eval.sh ${id}-${l} $id $wt $out "$pkg" $id $extra
done
