#!/bin/bash
# usage: seed_recheck.sh <seed-name> [check-ids...]
# Re-runs checks against an already confirmed seeded change (after the checks
# were strengthened): applies the patch to /repo, runs, reverts, and updates
# check_results in meta.json (entries of re-run checks are replaced).
set -u
name=$1; shift
dst=/verif/seeded/$name
checks=${*:-$(python3 -c "import json;print(json.load(open('$dst/meta.json'))['breaks_property'])")}
cd /verif
git -C /repo diff --quiet || { echo "/repo is not clean"; exit 2; }
git -C /repo apply $dst/patch.diff || { echo "patch does not apply"; exit 2; }
: > $dst/recheck.tsv
for c in $checks; do
  ./bin/verif check $c --tier quick > $dst/check_$c.log 2>&1; ec=$?
  v=$(grep -c '^VIOLATION' $dst/check_$c.log)
  printf "%s\t%s\t%s\n" "$c" "$ec" "$v" >> $dst/recheck.tsv
done
git -C /repo checkout -- .
git -C /verif checkout -- evidence 2>/dev/null
python3 - "$name" <<'PY'
import json,sys,os
name=sys.argv[1]; dst="/verif/seeded/"+name
meta=json.load(open(dst+"/meta.json"))
res={r["check"]:r for r in meta.get("check_results",[])}
for l in open(dst+"/recheck.tsv"):
    c,ec,v=l.rstrip("\n").split("\t")
    first=""
    ls=open(dst+"/check_%s.log"%c).read().splitlines()
    for i,x in enumerate(ls):
        if x.startswith("VIOLATION"):
            first=x+" | "+(ls[i+1].strip() if i+1<len(ls) else ""); break
    res[c]={"check":c,"exit":int(ec),"violation_lines":int(v),"first_violation":first[:300],"rerun":True}
meta["check_results"]=list(res.values())
json.dump(meta,open(dst+"/meta.json","w"),indent=1)
os.remove(dst+"/recheck.tsv")
print(name,[(r["check"],r["exit"],r["violation_lines"]) for r in meta["check_results"]])
PY
