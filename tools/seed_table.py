#!/usr/bin/env python3
"""Prints the markdown table of seeded changes and which checks caught them (from seeded/*/meta.json)."""
import json,glob,os
rows=[]
for f in sorted(glob.glob('/verif/seeded/*/meta.json')):
    m=json.load(open(f))
    what=m.get('what_it_needs','').strip().split('\n')
    desc=' '.join(what[:3])[:230].replace('|','/')
    caught=[r['check'] for r in m['check_results'] if r['exit']==1 and r['violation_lines']>0]
    missed=[r['check'] for r in m['check_results'] if not (r['exit']==1 and r['violation_lines']>0)]
    conf='yes' if m['confirmed'] else 'NO'
    if m.get('neutralised_by_fix'):
        conf='yes before %s; the demonstration passes since that fix'%m['neutralised_by_fix']
    rows.append("| %s | %s | %s | %s | %s |"%(m['seed'],m['breaks_property'],conf,', '.join(caught) or '-',', '.join(missed) or '-'))
print("| seed | property | confirmed | caught by (quick) | not caught by |")
print("|---|---|---|---|---|")
print('\n'.join(rows))
