#!/usr/bin/env python3
# Prints the measured-cost table of DESIGN.md section 9.2 from the evidence files.
import json, sys, glob, os
d = sys.argv[1] if len(sys.argv) > 1 else '/verif/evidence'
print('| id | harness runs | paths | assertions (queries + folded) | solver queries | solver s (sum over workers) | wall s | VM-vs-native differential runs |')
print('|---|---|---|---|---|---|---|---|')
for f in sorted(glob.glob(d + '/C*.json')):
    e = json.load(open(f))
    c = e.get('coverage', e)
    def g(k, default=0):
        return c.get(k, e.get(k, default))
    runs = g('runs', [])
    print('| %s | %d | %d | %d | %d | %.0f | %.0f | %d |' % (
        os.path.basename(f)[:-5], len(runs), g('paths'), g('assertion_queries_unsat') + g('assertions_folded_true_by_term_simplification'),
        g('solver_queries'), g('solver_time_s'), e.get('wall_s', 0), g('traces_validated_against_impl')))
